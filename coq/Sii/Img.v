(* Image representation for evaluating the SII model on concrete EEPROM images: a binary trie so
   that a byte lookup costs the length of the address, not the size of the image. *)
From Coq Require Import FMapPositive.
From EC Require Import Base.Prelude.
Local Open Scope N_scope.

Fixpoint img_map_go (l : list N) (i : positive) (m : PositiveMap.t N) : PositiveMap.t N :=
  match l with
  | [] => m
  | b :: r => img_map_go r (Pos.succ i) (PositiveMap.add i b m)
  end.

(* byte address a is stored under key a+1 *)
Definition img_map (l : list N) : PositiveMap.t N := img_map_go l 1%positive (PositiveMap.empty N).

Definition img_fun (m : PositiveMap.t N) (fill : N) : N -> N :=
  fun a => match PositiveMap.find (N.succ_pos a) m with Some v => v | None => fill end.

Definition list_fun (l : list N) (fill : N) : N -> N := fun a => nth (N.to_nat a) l fill.
