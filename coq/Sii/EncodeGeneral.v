(* C12, "parse to what they encode": the General category (ETG.2010 Table 7, 18 bytes used) and
   the string table (Table 6), encoders and round trips through the model's decoders. *)
From EC Require Import Base.Prelude Base.Bytes Base.BytesProofs Wire.Layout Gen.SrcLayouts Sii.Range Sii.RangeProofs Sii.Parse Sii.ParseProofs Sii.Encode.
Local Open Scope N_scope.

(* ---------- General ---------- *)
Record genv := {
  gv_group : N; gv_img : N; gv_order : N; gv_name : N;     (* string indices *)
  gv_coe : N;            (* CoE details, 6 bits *)
  gv_foe : bool; gv_eoe : bool;
  gv_flags : N;          (* 5 bits *)
  gv_ebus : Z;           (* E-bus current, signed 16 bit *)
  gv_p0 : N; gv_p1 : N; gv_p2 : N; gv_p3 : N;             (* physical ports, 0..4 *)
  gv_pma : N             (* physical memory address *)
}.

Definition gen_wf (v : genv) : Prop :=
  gv_coe v < 64 /\ gv_flags v < 32 /\ (-32768 <= gv_ebus v < 32768)%Z /\
  gv_p0 v <= 4 /\ gv_p1 v <= 4 /\ gv_p2 v <= 4 /\ gv_p3 v <= 4 /\ gv_pma v < 65536.

Definition ebus_raw (e : Z) : N := Z.to_N (if (e <? 0)%Z then e + 65536 else e)%Z.

Definition general_encode (v : genv) : list N :=
  [gv_group v; gv_img v; gv_order v; gv_name v; 0; gv_coe v; N.b2n (gv_foe v); N.b2n (gv_eoe v); 0; 0; 0; gv_flags v]
  ++ le_bytes 2 (ebus_raw (gv_ebus v)) ++ [gv_p0 v + 16 * gv_p1 v; gv_p2 v + 16 * gv_p3 v] ++ le_bytes 2 (gv_pma v).

Lemma bits63 x : x < 64 -> bits_val 63 x = Ok x.
Proof.
  intros H.
  assert (forallb (fun x => match bits_val 63 x with Ok y => y =? x | _ => false end) (map N.of_nat (seq 0 64)) = true) as F by (vm_compute; reflexivity).
  rewrite forallb_forall in F. specialize (F x).
  assert (I : In x (map N.of_nat (seq 0 64))) by (apply in_map_iff; exists (N.to_nat x); split; [lia|apply in_seq; lia]).
  specialize (F I). destruct (bits_val 63 x); try discriminate. apply N.eqb_eq in F. subst. reflexivity.
Qed.

Lemma bits31 x : x < 32 -> bits_val 31 x = Ok x.
Proof.
  intros H.
  assert (forallb (fun x => match bits_val 31 x with Ok y => y =? x | _ => false end) (map N.of_nat (seq 0 32)) = true) as F by (vm_compute; reflexivity).
  rewrite forallb_forall in F. specialize (F x).
  assert (I : In x (map N.of_nat (seq 0 32))) by (apply in_map_iff; exists (N.to_nat x); split; [lia|apply in_seq; lia]).
  specialize (F I). destruct (bits_val 31 x); try discriminate. apply N.eqb_eq in F. subst. reflexivity.
Qed.

Lemma ports_byte a b : a <= 4 -> b <= 4 ->
  enum_val enum_PortStatus (N.land (a + 16 * b) 15) = Ok a /\
  enum_val enum_PortStatus (N.land (N.shiftr (a + 16 * b) 4) 15) = Ok b.
Proof.
  intros Ha Hb.
  assert (A : a = 0 \/ a = 1 \/ a = 2 \/ a = 3 \/ a = 4) by lia.
  assert (B : b = 0 \/ b = 1 \/ b = 2 \/ b = 3 \/ b = 4) by lia.
  destruct A as [-> | [-> | [-> | [-> | ->]]]]; destruct B as [-> | [-> | [-> | [-> | ->]]]]; split; reflexivity.
Qed.

Lemma signed16_raw e : (-32768 <= e < 32768)%Z -> signed16 (ebus_raw e) = e /\ ebus_raw e < 65536.
Proof.
  intros H. unfold signed16, ebus_raw. destruct (e <? 0)%Z eqn:E.
  - apply Z.ltb_lt in E. split; [|lia]. destruct (Z.to_N (e + 65536) <? 32768) eqn:E2; [apply N.ltb_lt in E2; lia|lia].
  - apply Z.ltb_ge in E. split; [|lia]. destruct (Z.to_N e <? 32768) eqn:E2; [lia|apply N.ltb_ge in E2; lia].
Qed.

(* every General category written after the table is read back field by field *)
Theorem general_roundtrip v : gen_wf v ->
  exists g, parse_general (general_encode v) = Ok g /\
    g_order_idx g = gv_order v /\ g_name_idx g = gv_name v /\
    g_obs g = [Z.of_N (gv_group v); Z.of_N (gv_img v); Z.of_N (gv_order v); Z.of_N (gv_name v);
               Z.of_N (gv_coe v); (if gv_foe v then 1 else 0)%Z; (if gv_eoe v then 1 else 0)%Z;
               Z.of_N (gv_flags v); gv_ebus v;
               Z.of_N (gv_p0 v); Z.of_N (gv_p1 v); Z.of_N (gv_p2 v); Z.of_N (gv_p3 v); Z.of_N (gv_pma v)].
Proof.
  destruct v as [gr im od nm coe foe eoe fl eb p0 p1 p2 p3 pma]. unfold gen_wf; cbn [gv_coe gv_flags gv_ebus gv_p0 gv_p1 gv_p2 gv_p3 gv_pma gv_group gv_img gv_order gv_name gv_foe gv_eoe].
  intros (Hc & Hf & He & H0 & H1 & H2 & H3 & Hm).
  destruct (signed16_raw eb He) as [Hs Hr].
  destruct (ports_byte p0 p1 H0 H1) as [Q0 Q1]. destruct (ports_byte p2 p3 H2 H3) as [Q2 Q3].
  unfold parse_general, general_encode;
    cbn [gv_coe gv_flags gv_ebus gv_p0 gv_p1 gv_p2 gv_p3 gv_pma gv_group gv_img gv_order gv_name gv_foe gv_eoe].
  set (er := ebus_raw eb) in *.
  replace (nth 5 ([gr; im; od; nm; 0; coe; N.b2n foe; N.b2n eoe; 0; 0; 0; fl] ++ le_bytes 2 er ++ [p0 + 16 * p1; p2 + 16 * p3] ++ le_bytes 2 pma) 0) with coe by reflexivity.
  replace (nth 11 ([gr; im; od; nm; 0; coe; N.b2n foe; N.b2n eoe; 0; 0; 0; fl] ++ le_bytes 2 er ++ [p0 + 16 * p1; p2 + 16 * p3] ++ le_bytes 2 pma) 0) with fl by reflexivity.
  replace (nth 14 ([gr; im; od; nm; 0; coe; N.b2n foe; N.b2n eoe; 0; 0; 0; fl] ++ le_bytes 2 er ++ [p0 + 16 * p1; p2 + 16 * p3] ++ le_bytes 2 pma) 0) with (p0 + 16 * p1) by reflexivity.
  replace (nth 15 ([gr; im; od; nm; 0; coe; N.b2n foe; N.b2n eoe; 0; 0; 0; fl] ++ le_bytes 2 er ++ [p0 + 16 * p1; p2 + 16 * p3] ++ le_bytes 2 pma) 0) with (p2 + 16 * p3) by reflexivity.
  rewrite (bits63 coe Hc), (bits31 fl Hf), Q0, Q1, Q2, Q3. cbn [rbind].
  eexists. split; [reflexivity|]. cbn [g_order_idx g_name_idx g_obs]. split; [reflexivity|]. split; [reflexivity|].
  replace (skipn 12 ([gr; im; od; nm; 0; coe; N.b2n foe; N.b2n eoe; 0; 0; 0; fl] ++ le_bytes 2 er ++ [p0 + 16 * p1; p2 + 16 * p3] ++ le_bytes 2 pma))
    with (le_bytes 2 er ++ [p0 + 16 * p1; p2 + 16 * p3] ++ le_bytes 2 pma) by reflexivity.
  replace (skipn 16 ([gr; im; od; nm; 0; coe; N.b2n foe; N.b2n eoe; 0; 0; 0; fl] ++ le_bytes 2 er ++ [p0 + 16 * p1; p2 + 16 * p3] ++ le_bytes 2 pma))
    with (le_bytes 2 pma ++ []) by (rewrite app_nil_r; reflexivity).
  rewrite (le16_bytes er _ Hr), (le16_bytes pma _ Hm), Hs.
  replace (nth 0 ([gr; im; od; nm; 0; coe; N.b2n foe; N.b2n eoe; 0; 0; 0; fl] ++ le_bytes 2 er ++ [p0 + 16 * p1; p2 + 16 * p3] ++ le_bytes 2 pma) 0) with gr by reflexivity.
  replace (nth 1 ([gr; im; od; nm; 0; coe; N.b2n foe; N.b2n eoe; 0; 0; 0; fl] ++ le_bytes 2 er ++ [p0 + 16 * p1; p2 + 16 * p3] ++ le_bytes 2 pma) 0) with im by reflexivity.
  replace (nth 2 ([gr; im; od; nm; 0; coe; N.b2n foe; N.b2n eoe; 0; 0; 0; fl] ++ le_bytes 2 er ++ [p0 + 16 * p1; p2 + 16 * p3] ++ le_bytes 2 pma) 0) with od by reflexivity.
  replace (nth 3 ([gr; im; od; nm; 0; coe; N.b2n foe; N.b2n eoe; 0; 0; 0; fl] ++ le_bytes 2 er ++ [p0 + 16 * p1; p2 + 16 * p3] ++ le_bytes 2 pma) 0) with nm by reflexivity.
  replace (nth 6 ([gr; im; od; nm; 0; coe; N.b2n foe; N.b2n eoe; 0; 0; 0; fl] ++ le_bytes 2 er ++ [p0 + 16 * p1; p2 + 16 * p3] ++ le_bytes 2 pma) 0) with (N.b2n foe) by reflexivity.
  replace (nth 7 ([gr; im; od; nm; 0; coe; N.b2n foe; N.b2n eoe; 0; 0; 0; fl] ++ le_bytes 2 er ++ [p0 + 16 * p1; p2 + 16 * p3] ++ le_bytes 2 pma) 0) with (N.b2n eoe) by reflexivity.
  destruct foe, eoe; reflexivity.
Qed.

(* ---------- the string table ---------- *)
Definition enc_strs (ss : list (list N)) : list N := concat (map (fun s => N.of_nat (length s) :: s) ss).
Definition strings_encode (ss : list (list N)) : list N := N.of_nat (length ss) :: enc_strs ss.

(* the bytes [l] are stored at byte address [a] *)
Definition holds (p : prov) (a : N) (l : list N) : Prop :=
  forall i, (i < length l)%nat -> byte_at p (a + N.of_nat i) = nth i l 0.

Lemma holds_app p a l1 l2 : holds p a (l1 ++ l2) -> holds p a l1 /\ holds p (a + N.of_nat (length l1)) l2.
Proof.
  intros H. split; intros i Hi.
  - rewrite H by (rewrite app_length; lia). rewrite app_nth1 by lia. reflexivity.
  - replace (a + N.of_nat (length l1) + N.of_nat i) with (a + N.of_nat (length l1 + i)) by lia.
    rewrite H by (rewrite app_length; lia). rewrite app_nth2 by lia. f_equal. lia.
Qed.

Lemma holds_bytes p a l : holds p a l -> bytes_from p a (length l) = l.
Proof.
  intros H. apply (nth_ext _ _ 0 0); [apply bytes_from_length|].
  intros i Hi. rewrite bytes_from_length in Hi. rewrite bytes_from_nth by lia. apply H. exact Hi.
Qed.

Lemma read_byte_exact p r : (2 <= p_cs p)%nat -> r_pos r < 131072 ->
  range_read_byte p r = Ok (byte_at p (r_pos r), {| r_pos := r_pos r + 1; r_end := r_end r |}).
Proof.
  intros C L. pose proof (range_read_byte_safe p r C) as S.
  destruct (range_read_byte p r) as [[b r']|e|s|] eqn:E; try contradiction.
  - destruct S as (-> & P & Q & _). destruct r' as [rp re]. cbn in P, Q. subst. reflexivity.
  - exfalso. unfold range_read_byte, word_addr in E.
    assert (X : r_pos r / 2 <? 65536 = true).
    { apply N.ltb_lt. apply N.div_lt_upper_bound; lia. }
    rewrite X in E. cbn [rbind] in E.
    destruct (nth_error (read_chunk p (r_pos r / 2)) (N.to_nat (r_pos r mod 2))) eqn:EN; [discriminate|].
    apply nth_error_None in EN. unfold read_chunk in EN. rewrite map_length, seq_length in EN.
    pose proof (N.mod_lt (r_pos r) 2 ltac:(lia)). lia.
Qed.

Lemma enc_strs_cons s ss : enc_strs (s :: ss) = (N.of_nat (length s) :: s) ++ enc_strs ss.
Proof. reflexivity. Qed.

(* skipping k strings moves the position over exactly their encodings, provided something follows *)
Lemma skip_strings_spec p : (2 <= p_cs p)%nat -> forall sk fuel r rest,
  holds p (r_pos r) (enc_strs sk ++ rest) -> rest <> [] ->
  r_pos r + N.of_nat (length (enc_strs sk ++ rest)) <= r_end r -> r_end r <= 131072 ->
  (length sk <= fuel)%nat ->
  skip_strings fuel p r (length sk) = Ok {| r_pos := r_pos r + N.of_nat (length (enc_strs sk)); r_end := r_end r |}.
Proof.
  intros C. induction sk as [|s sk IH]; intros fuel r rest H NE L A F.
  - cbn [length enc_strs map concat]. rewrite N.add_0_r. destruct r, fuel; reflexivity.
  - cbn [length] in F |- *. destruct fuel as [|f]; [lia|]. cbn [skip_strings].
    rewrite enc_strs_cons in *. rewrite <- app_assoc in H, L. cbn [app] in H, L.
    assert (Lr : length rest <> 0%nat) by (destruct rest; [congruence|discriminate]).
    cbn [length] in L. rewrite !app_length in L.
    rewrite read_byte_exact; [|exact C|lia]. cbn [rbind].
    assert (B : byte_at p (r_pos r) = N.of_nat (length s)).
    { specialize (H 0%nat). cbn [length nth] in H. rewrite N.add_0_r in H. apply H. lia. }
    rewrite B. unfold range_skip. cbn [r_pos r_end].
    destruct (r_end r <=? r_pos r + 1 + N.of_nat (length s)) eqn:E; [apply N.leb_le in E; lia|]. cbn [rbind].
    rewrite IH with (rest := rest); cbn [r_pos r_end]; auto; try lia.
    + f_equal. f_equal. rewrite app_length. cbn [length]. lia.
    + change (N.of_nat (length s) :: s ++ enc_strs sk ++ rest) with ((N.of_nat (length s) :: s) ++ (enc_strs sk ++ rest)) in H.
      apply holds_app in H as [_ H]. cbn [length] in H.
      replace (r_pos r + 1 + N.of_nat (length s)) with (r_pos r + N.of_nat (S (length s))) by lia. exact H.
    + rewrite app_length. lia.
Qed.

Lemma skipn_nth {A} (d : A) : forall k l, (k < length l)%nat -> skipn k l = nth k l d :: skipn (S k) l.
Proof.
  induction k as [|k IH]; intros [|x xs] H; cbn [length] in H; try lia; [reflexivity|].
  cbn [skipn nth]. rewrite IH by lia. reflexivity.
Qed.

(* The string table written after ETG.2010 (count, then length-prefixed strings) is read back: string
   number idx (1-based) is the idx-th string, cleaned as the implementation cleans it (NUL bytes
   dropped, non-ASCII replaced by '?'); 0 and numbers beyond the table are "no string". *)
Theorem find_string_roundtrip p r ss cap idx : prov_ok p ->
  category p cat_strings = Ok (Some r) ->
  holds p (r_pos r) (strings_encode ss) ->
  r_pos r + N.of_nat (length (strings_encode ss)) < r_end r -> r_end r <= 131072 ->
  (length ss < 256)%nat -> Forall (fun s => (length s < 256)%nat) ss ->
  1 <= idx -> (N.to_nat idx <= length ss)%nat ->
  N.of_nat (length (nth (N.to_nat idx - 1) ss [])) <= cap ->
  find_string p cap idx = Ok (Some (clean (nth (N.to_nat idx - 1) ss []))).
Proof.
  intros [C PB] Hc H L A Ln Fl I1 I2 Cap.
  unfold find_string. destruct (idx =? 0) eqn:E0; [apply N.eqb_eq in E0; lia|].
  rewrite Hc. cbn [rbind].
  unfold strings_encode in H, L. cbn [length] in L.
  rewrite read_byte_exact; [|exact C|lia]. cbn [rbind].
  assert (B0 : byte_at p (r_pos r) = N.of_nat (length ss)).
  { specialize (H 0%nat). cbn [length nth] in H. rewrite N.add_0_r in H. apply H. lia. }
  rewrite B0.
  destruct (N.of_nat (length ss) <=? idx - 1) eqn:E1; [apply N.leb_le in E1; lia|].
  set (k := (N.to_nat idx - 1)%nat).
  replace (N.to_nat (idx - 1)) with k by lia.
  (* split the table around string k *)
  assert (Hk : (k < length ss)%nat) by lia.
  set (s := nth k ss []).
  assert (Sp : ss = firstn k ss ++ s :: skipn (S k) ss).
  { rewrite <- (firstn_skipn k ss) at 1. f_equal. apply skipn_nth. exact Hk. }
  set (sk := firstn k ss) in *. set (tl := skipn (S k) ss) in *.
  assert (Lsk : length sk = k) by (subst sk; rewrite firstn_length; lia).
  assert (Enc : enc_strs ss = enc_strs sk ++ (N.of_nat (length s) :: s) ++ enc_strs tl).
  { rewrite Sp at 1. unfold enc_strs. rewrite map_app, concat_app. reflexivity. }
  assert (Len : length (enc_strs ss) = (length (enc_strs sk) + S (length s) + length (enc_strs tl))%nat).
  { rewrite Enc, !app_length. cbn [length]. lia. }
  change (N.of_nat (length ss) :: enc_strs ss) with ([N.of_nat (length ss)] ++ enc_strs ss) in H.
  apply holds_app in H as [_ H]. cbn [length] in H. rewrite Enc in H.
  rewrite <- Lsk.
  rewrite (skip_strings_spec p C sk 256 {| r_pos := r_pos r + 1; r_end := r_end r |} ((N.of_nat (length s) :: s) ++ enc_strs tl));
    cbn [r_pos r_end].
  2:{ exact H. }
  2:{ discriminate. }
  2:{ rewrite !app_length. cbn [length]. lia. }
  2:{ exact A. }
  2:{ lia. }
  cbn [rbind].
  apply holds_app in H as [_ H].
  rewrite read_byte_exact; [|exact C|cbn [r_pos r_end]; lia]. cbn [r_pos r_end rbind].
  assert (Bl : byte_at p (r_pos r + 1 + N.of_nat (length (enc_strs sk))) = N.of_nat (length s)).
  { specialize (H 0%nat). cbn [app length nth] in H. rewrite N.add_0_r in H. apply H. lia. }
  rewrite Bl.
  destruct (cap <? N.of_nat (length s)) eqn:Ec; [apply N.ltb_lt in Ec; subst s k; lia|].
  unfold exact. rewrite range_read_exact_spec; cbn [r_pos r_end]; [|exact C|lia|exact A].
  rewrite Nat2N.id.
  destruct (length s <=? N.to_nat (r_end r - (r_pos r + 1 + N.of_nat (length (enc_strs sk)) + 1)))%nat eqn:Er.
  2:{ apply Nat.leb_gt in Er. lia. }
  cbn [rbind]. f_equal. f_equal. f_equal.
  change ((N.of_nat (length s) :: s) ++ enc_strs tl) with ([N.of_nat (length s)] ++ (s ++ enc_strs tl)) in H.
  apply holds_app in H as [_ H]. apply holds_app in H as [H _]. cbn [length] in H.
  apply holds_bytes. exact H.
Qed.

Theorem find_string_zero p cap : find_string p cap 0 = Ok None.
Proof. reflexivity. Qed.

(* an index beyond the table is "no string" *)
Theorem find_string_beyond p r ss cap idx : prov_ok p ->
  category p cat_strings = Ok (Some r) -> holds p (r_pos r) (strings_encode ss) -> r_pos r < 131072 ->
  (length ss < N.to_nat idx)%nat -> find_string p cap idx = Ok None.
Proof.
  intros [C PB] Hc H L I. unfold find_string.
  destruct (idx =? 0) eqn:E0; [reflexivity|]. rewrite Hc. cbn [rbind].
  rewrite read_byte_exact; [|exact C|exact L]. cbn [rbind].
  assert (B0 : byte_at p (r_pos r) = N.of_nat (length ss)).
  { specialize (H 0%nat). unfold strings_encode in H. cbn [length nth] in H. rewrite N.add_0_r in H. apply H. lia. }
  rewrite B0. destruct (N.of_nat (length ss) <=? idx - 1) eqn:E1; [reflexivity|]. apply N.leb_gt in E1. lia.
Qed.

(* non-vacuity: an image whose first category (at word 64) is a string table with "EK1100" and
   "Coupler", read through the whole path (category walk, count, skipping, cleaning) *)
Definition ex_strings : list (list N) := [[69; 75; 49; 49; 48; 48]; [67; 111; 117; 112; 108; 101; 114]].
Definition ex_image : list N :=
  (* category header: type 10, 9 words *) [10; 0; 9; 0] ++ strings_encode ex_strings ++ [0] ++ (* end *) [255; 255; 0; 0].
Definition ex_prov : prov :=
  {| p_byte := fun a => if a <? 128 then 0 else nth (N.to_nat (a - 128)) ex_image 255; p_cs := 4; p_writes := [] |}.

Theorem find_string_example :
  find_string ex_prov 64 1 = Ok (Some [69; 75; 49; 49; 48; 48]) /\
  find_string ex_prov 64 2 = Ok (Some [67; 111; 117; 112; 108; 101; 114]) /\
  find_string ex_prov 64 3 = Ok None.
Proof. repeat split; vm_compute; reflexivity. Qed.
