(* C12/C13/C14: the EEPROM-derived queries of SubDeviceEeprom (src/subdevice/eeprom.rs): category
   walk, fixed-position fields, category item lists, strings, station alias.  Layout-derived
   types use the enum definitions generated from the sources (Gen/SrcLayouts.v).  No proofs here. *)
From EC Require Import Base.Prelude Base.Bytes Wire.Layout Gen.SrcLayouts Sii.Range.
Local Open Scope N_scope.

(* ---------- small decoders ---------- *)
Definition le16 (l : list N) : N := of_le (firstn 2 l).
Definition le32 (l : list N) : N := of_le (firstn 4 l).

Definition enum_val (e : enum_def) (raw : N) : res serr N :=
  match enum_unpack e (Z.of_N raw) with
  | Ok v => Ok (Z.to_N (enum_pack e v))
  | _ => Err SWireInvalid
  end.

(* bitflags from_bits: unknown bits are an error *)
Definition bits_val (mask raw : N) : res serr N :=
  if N.land raw (N.lnot mask 16) =? 0 then Ok raw else Err SWireInvalid.

Definition cat_strings : N := 10.   Definition cat_general : N := 30.
Definition cat_fmmu : N := 40.      Definition cat_sm : N := 41.
Definition cat_fmmu_ex : N := 42.   Definition cat_txpdo : N := 50.
Definition cat_rxpdo : N := 51.     Definition cat_end : N := 65535.

(* ---------- the category walk ---------- *)
Fixpoint walk (fuel : nat) (p : prov) (want : N) (word_addr : N) (empties : N)
  : res serr (option range) :=
  match fuel with
  | O => Hang
  | S f =>
    let chunk := read_chunk p word_addr in
    if 65536 <=? word_addr + 2 then Ok None            (* checked_add(2) *)
    else
      let wa := word_addr + 2 in
      match enum_val enum_CategoryType (le16 chunk) with
      | Ok ct =>
        let len_words := le16 (skipn 2 chunk) in
        let empties' := if len_words =? 0 then empties + 1 else empties in
        if 32 <=? empties' then Ok None
        else if ct =? want then Ok (Some (range_new wa len_words))
        else if ct =? cat_end then Ok None
        else if 65536 <=? wa + len_words then Ok None      (* checked_add(len_words) *)
        else walk f p want (wa + len_words) empties'
      | Err e => Err e | Panic s => Panic s | Hang => Hang
      end
  end.

(* every iteration advances by at least 2 words: 32768 iterations reach the end of the space *)
Definition walk_fuel : nat := Z.to_nat 32800.

Definition category (p : prov) (want : N) : res serr (option range) :=
  walk walk_fuel p want 64 0.

(* start_at(word, len_bytes) = EepromRange::new(word, len_bytes.div_ceil(2)) *)
Definition start_at (w len_bytes : N) : range := range_new w ((len_bytes + 1) / 2).

(* read_exact on a fresh range, mapping UnexpectedEof to SectionOverrun as `?` does *)
Definition exact (p : prov) (r : range) (n : nat) : res serr (list N * range) :=
  let? '(o, r') := range_read_exact p r n in
  match o with Some b => Ok (b, r') | None => Err SOverrun end.

(* ---------- fixed-position queries ---------- *)
Definition q_station_alias p : res serr (list Z) :=
  let? '(b, _) := exact p (start_at 4 2) 2 in Ok [Z.of_N (le16 b)].

Definition q_identity p : res serr (list Z) :=
  let? '(b, _) := exact p (start_at 8 16) 16 in
  Ok (map Z.of_N [le32 b; le32 (skipn 4 b); le32 (skipn 8 b); le32 (skipn 12 b)]).

Definition q_size p : res serr (list Z) :=
  let? '(b, _) := exact p (start_at 62 2) 2 in Ok [Z.of_N ((le16 b + 1) * 128)].

Definition q_mailbox p : res serr (list Z) :=
  let? '(b, _) := exact p (start_at 24 10) 10 in
  let? pr := bits_val 63 (nth 8 b 0) in
  Ok (map Z.of_N [le16 b; le16 (skipn 2 b); le16 (skipn 4 b); le16 (skipn 6 b); pr]).

(* ---------- General ---------- *)
Record general := { g_order_idx : N; g_name_idx : N; g_obs : list Z }.

Definition signed16 (x : N) : Z := if x <? 32768 then Z.of_N x else (Z.of_N x - 65536)%Z.

Definition parse_general (b : list N) : res serr general :=
  let? coe := bits_val 63 (nth 5 b 0) in
  let? fl := bits_val 31 (nth 11 b 0) in
  let? p1 := enum_val enum_PortStatus (N.land (nth 14 b 0) 15) in
  let? p2 := enum_val enum_PortStatus (N.land (N.shiftr (nth 14 b 0) 4) 15) in
  let? p3 := enum_val enum_PortStatus (N.land (nth 15 b 0) 15) in
  let? p4 := enum_val enum_PortStatus (N.land (N.shiftr (nth 15 b 0) 4) 15) in
  Ok {| g_order_idx := nth 2 b 0; g_name_idx := nth 3 b 0;
        g_obs := [Z.of_N (nth 0 b 0); Z.of_N (nth 1 b 0); Z.of_N (nth 2 b 0); Z.of_N (nth 3 b 0);
                  Z.of_N coe; (if 0 <? nth 6 b 0 then 1%Z else 0%Z); (if 0 <? nth 7 b 0 then 1%Z else 0%Z);
                  Z.of_N fl; signed16 (le16 (skipn 12 b));
                  Z.of_N p1; Z.of_N p2; Z.of_N p3; Z.of_N p4; Z.of_N (le16 (skipn 16 b))] |}.

Definition q_general_raw p : res serr general :=
  let? c := category p cat_general in
  match c with
  | None => Err SNoCategory
  | Some r => let? '(b, _) := exact p r 18 in parse_general b
  end.

Definition q_general p : res serr (list Z) := let? g := q_general_raw p in Ok (g_obs g).

(* ---------- category items ---------- *)
(* CategoryIterator::next: Some bytes, or None at the end (also for a truncated last item) *)
Definition next_item (p : prov) (r : range) (n : nat) : res serr (option (list N) * range) :=
  range_read_exact p r n.

Definition items_range p cat : res serr range :=
  let? c := category p cat in
  match c with Some r => Ok r | None => Ok (range_new 0 0) end.

Definition parse_sm (b : list N) : res serr (list Z) :=
  let c := nth 4 b 0 in
  let? om := enum_val enum_OperationMode (N.land c 3) in
  let? dir := enum_val enum_Direction (N.land (N.shiftr c 2) 3) in
  let? en := bits_val 15 (nth 6 b 0) in
  let? ut := enum_val enum_SyncManagerType (nth 7 b 0) in
  let derived := if negb (ut =? 0) then ut
                 else match om, dir with
                      | 0, 0 => 4 | 0, _ => 3 | _, 0 => 2 | _, _ => 1
                      end in
  Ok (map Z.of_N [le16 b; le16 (skipn 2 b); om; dir; N.b2n (N.testbit c 4); N.b2n (N.testbit c 5);
                  N.b2n (N.testbit c 6); en; ut; derived]).

Fixpoint collect (fuel : nat) (p : prov) (r : range) (size : nat)
  (parse : list N -> res serr (list Z)) (cap : nat) (item : N) (n : nat) (acc : list Z)
  : res serr (nat * list Z) :=
  match fuel with
  | O => Hang
  | S f =>
    let? '(o, r') := next_item p r size in
    match o with
    | None => Ok (n, acc)
    | Some b =>
      let? v := parse b in
      if (cap <=? n)%nat then Err (SCapacity item)
      else collect f p r' size parse cap item (S n) (acc ++ v)
    end
  end.

Definition item_sm : N := 1.  Definition item_fmmuex : N := 2.  Definition item_pdo : N := 3.

Definition q_sync_managers p : res serr (list Z) :=
  let? r := items_range p cat_sm in
  let? '(n, acc) := collect 10 p r 8 parse_sm 8 item_sm 0 [] in Ok (Z.of_nat n :: acc).

Definition q_fmmu_mappings p : res serr (list Z) :=
  let? r := items_range p cat_fmmu_ex in
  let? '(n, acc) := collect 18 p r 3 (fun b => Ok [Z.of_N (nth 1 b 0)]) 16 item_fmmuex 0 [] in
  Ok (Z.of_nat n :: acc).

Fixpoint map_res {A B} (f : A -> res serr B) (l : list A) : res serr (list B) :=
  match l with
  | [] => Ok []
  | x :: r => let? y := f x in let? ys := map_res f r in Ok (y :: ys)
  end.

Definition q_fmmus p : res serr (list Z) :=
  let? c := category p cat_fmmu in
  match c with
  | None => Ok [0%Z]
  | Some r =>
    let? '(b, _) := range_read p r 16 in
    let? us := map_res (enum_val enum_FmmuUsage) b in
    Ok (Z.of_nat (length us) :: map Z.of_N us)
  end.

(* PDOs: each 8-byte header is followed by num_entries 8-byte entries *)
Fixpoint pdo_entries (fuel : nat) (md : mode) (p : prov) (r : range) (k : nat) (bits : N)
  : res serr (N * range) :=
  match k with
  | O => Ok (bits, r)
  | S k' =>
    match fuel with
    | O => Hang
    | S f =>
      let? '(o, r') := next_item p r 8 in
      match o with
      | None => Err SDecode
      | Some b =>
        let? nb := u16 md 50 (bits + nth 5 b 0) in
        pdo_entries f md p r' k' nb
      end
    end
  end.

Fixpoint collect_pdos (fuel : nat) (md : mode) (p : prov) (r : range) (n : nat) (acc : list Z)
  : res serr (nat * list Z) :=
  match fuel with
  | O => Hang
  | S f =>
    let? '(o, r') := next_item p r 8 in
    match o with
    | None => Ok (n, acc)
    | Some b =>
      let ne := nth 2 b 0 in
      let? '(bits, r'') := pdo_entries 256 md p r' (N.to_nat ne) 0 in
      if (64 <=? n)%nat then Err (SCapacity item_pdo)
      else collect_pdos f md p r'' (S n) (acc ++ map Z.of_N [le16 b; ne; nth 3 b 0; bits])
    end
  end.

Definition q_pdos md p (cat : N) : res serr (list Z) :=
  let? r := items_range p cat in
  let? '(n, acc) := collect_pdos 66 md p r 0 [] in Ok (Z.of_nat n :: acc).

(* ---------- strings ---------- *)
Fixpoint skip_strings (fuel : nat) (p : prov) (r : range) (k : nat) : res serr range :=
  match k with
  | O => Ok r
  | S k' =>
    match fuel with
    | O => Hang
    | S f =>
      let? '(len, r1) := range_read_byte p r in
      let? r2 := range_skip r1 len in
      skip_strings f p r2 k'
    end
  end.

Definition clean (b : list N) : list N :=
  map (fun c => if c <? 128 then c else 63) (filter (fun c => negb (c =? 0)) b).

Definition obs_string (o : option (list N)) : list Z :=
  match o with None => [(-1)%Z] | Some s => Z.of_nat (length s) :: map Z.of_N s end.

(* find_string::<N>(idx) *)
Definition find_string p (cap : N) (idx : N) : res serr (option (list N)) :=
  if idx =? 0 then Ok None
  else
    let si := idx - 1 in
    let? c := category p cat_strings in
    match c with
    | None => Ok None
    | Some r =>
      let? '(num, r1) := range_read_byte p r in
      if num <=? si then Ok None
      else
        let? r2 := skip_strings 256 p r1 (N.to_nat si) in
        let? '(len, r3) := range_read_byte p r2 in
        if cap <? len then Err (SStringTooLong len)
        else let? '(b, _) := exact p r3 (N.to_nat len) in Ok (Some (clean b))
    end.

Definition ignore_no_category {A} (r : res serr A) : res serr (option A) :=
  match r with
  | Ok x => Ok (Some x)
  | Err SNoCategory => Ok None
  | Err e => Err e | Panic s => Panic s | Hang => Hang
  end.

Definition q_device_name p : res serr (list Z) :=
  let? g := ignore_no_category (q_general_raw p) in
  match g with
  | None => Ok (obs_string None)
  | Some g =>
    let? s := ignore_no_category (find_string p 64 (g_order_idx g)) in
    Ok (obs_string (match s with Some (Some x) => Some x | _ => None end))
  end.

Definition q_device_description p : res serr (list Z) :=
  let? g := q_general_raw p in
  let? s := find_string p 128 (g_name_idx g) in Ok (obs_string s).

(* ---------- station alias ---------- *)
Fixpoint crc8_bits (n : nat) (c : N) : N :=
  match n with
  | O => c
  | S k => crc8_bits k (if N.testbit c 7 then N.lxor (N.land (c * 2) 255) 7 else N.land (c * 2) 255)
  end.
Definition crc8_byte (c b : N) : N := crc8_bits 8 (N.lxor c b).
Definition crc8 (l : list N) : N := fold_left crc8_byte l 255.

Definition set_station_alias p (alias : N) : res serr prov :=
  let? '(chunk, _) := exact p (start_at 0 14) 14 in
  let chunk' := firstn 8 chunk ++ le_bytes 2 alias ++ skipn 10 chunk in
  let cs := crc8 chunk' in
  let? '(p1, _) := range_write_all p (start_at 4 2) (le_bytes 2 alias) in
  let? '(p2, _) := range_write_all p1 (start_at 7 2) (le_bytes 2 cs) in
  Ok p2.

(* SubDevice::set_alias_address: the EEPROM first, and only when that succeeded the alias the
   SubDevice reports (SubDevice::alias_address) *)
Definition set_alias_address p (reported alias : N) : res serr prov * N :=
  match set_station_alias p alias with
  | Ok p' => (Ok p', alias)
  | other => (other, reported)
  end.

(* ---------- the hook's query numbers ---------- *)
Definition query (md : mode) (p : prov) (q arg : N) : res serr (list Z) * prov :=
  match q with
  | 0 => (q_identity p, p)
  | 1 => (q_device_name p, p)
  | 2 => (q_device_description p, p)
  | 3 => (q_size p, p)
  | 4 => (q_mailbox p, p)
  | 5 => (q_general p, p)
  | 6 => (q_sync_managers p, p)
  | 7 => (q_fmmus p, p)
  | 8 => (q_fmmu_mappings p, p)
  | 9 => (q_pdos md p cat_txpdo, p)
  | 10 => (q_pdos md p cat_rxpdo, p)
  | 11 => ((let? s := find_string p 64 (arg mod 256) in Ok (obs_string s)), p)
  | 12 => (q_station_alias p, p)
  | 13 => match set_station_alias p arg with
          | Ok p' => (Ok [], p') | Err e => (Err e, p) | Panic s => (Panic s, p) | Hang => (Hang, p)
          end
  | _ => (Err SInternal, p)
  end.

Definition obs_query (md : mode) (p : prov) (q arg : N) : list Z :=
  let '(r, p') := query md p q arg in
  match r with
  | Ok out => (0 :: out ++ [-7] ++ concat (map (fun kv => [Z.of_N (fst kv); Z.of_N (snd kv)]) (rev (p_writes p'))))%Z
  | Err e => ((-1) :: obs_err e)%Z
  | Panic _ => [-98]%Z
  | Hang => [-99]%Z
  end.

(* the bodies of eeprom_read_raw (exact = false), eeprom_read (exact = true) and
   eeprom_write_dangerously (write = true; the hook writes a pattern) *)
Definition obs_raw (p : prov) (w : N) (n : nat) (is_exact is_write : bool) : list Z :=
  let r := start_at w (N.of_nat n) in
  let fin {A} (x : res serr A) (f : A -> list Z) : list Z :=
    match x with Ok a => f a | Err e => ((-1) :: obs_err e)%Z | Panic _ => [-98]%Z | Hang => [-99]%Z end in
  if is_write then
    fin (range_write_all p r (pattern 0 n))
        (fun pr => (0 :: [-7] ++ concat (map (fun kv => [Z.of_N (fst kv); Z.of_N (snd kv)]) (rev (p_writes (fst pr)))))%Z)
  else if is_exact then
    fin (exact p r n)
        (fun br => (0 :: map Z.of_N (fst br) ++ [-7] ++ concat (map (fun kv => [Z.of_N (fst kv); Z.of_N (snd kv)]) (rev (p_writes p))))%Z)
  else
    fin (range_read p r n)
        (fun br => (0 :: Z.of_nat (length (fst br)) :: map Z.of_N (fst br) ++ [-7] ++ concat (map (fun kv => [Z.of_N (fst kv); Z.of_N (snd kv)]) (rev (p_writes p))))%Z).

(* ---------- the device-level provider (DeviceEeprom::write_word) ---------- *)
(* A device that answers the next [errs] write commands with the command-error flag.  One word:
   the write is repeated while the flag comes back and fewer than 20 retries were made; then the
   loop ends - with Ok(()) in both cases.  Result: stored?, write commands issued, errors left. *)
Definition dev_write_word (errs : nat) : bool * nat * nat :=
  if (errs <=? 20)%nat then (true, S errs, 0%nat) else (false, 21%nat, (errs - 21)%nat).

(* eeprom_write_dangerously of [payload] at word [w] against such a device: the words stored, in
   order, and the number of write commands *)
Fixpoint dev_write_words (errs : nat) (w : N) (payload : list N) (fuel : nat) : list (N * N * N) * nat :=
  match fuel with
  | O => ([], 0%nat)
  | S f =>
    match payload with
    | [] => ([], 0%nat)
    | b0 :: rest0 =>
      let '(b1, rest) := match rest0 with [] => (0, []) | b1 :: rest => (b1, rest) end in
      let '(stored, cmds, errs') := dev_write_word errs in
      let '(ws, n) := dev_write_words errs' (w + 1) rest f in
      ((if stored then [(w, b0, b1)] else []) ++ ws, (cmds + n)%nat)
    end
  end.

Definition obs_dev_write (errs : nat) (w : N) (payload : list N) : list Z :=
  let '(ws, n) := dev_write_words errs w payload (S (length payload)) in
  (Z.of_nat n :: concat (map (fun x => match x with (a, b0, b1) => [Z.of_N a; Z.of_N b0; Z.of_N b1] end) ws))%Z.

(* eeprom_write_dangerously with an arbitrary payload over a provider that stores every word *)
Definition obs_write (p : prov) (w : N) (payload : list N) : list Z :=
  match range_write_all p (start_at w (N.of_nat (length payload))) payload with
  | Ok (p', _) => (0 :: concat (map (fun kv => [Z.of_N (fst kv); Z.of_N (snd kv)]) (rev (p_writes p'))))%Z
  | Err e => ((-1) :: obs_err e)%Z | Panic _ => [-98]%Z | Hang => [-99]%Z
  end.
