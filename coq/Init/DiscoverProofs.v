From EC Require Import Base.Prelude Base.Bytes Init.Discover.
From Coq Require Import Permutation.
Local Open Scope N_scope.

(* the device at ring position i gets 0x1000 + i *)
Lemma addressed_nth n i : (i < n)%nat -> nth i (addressed n) (0%nat, 0) = (i, addr_of i).
Proof.
  intros H. unfold addressed.
  rewrite (nth_indep _ (0%nat, 0) ((fun k => (k, addr_of k)) 0%nat)) by (rewrite map_length, seq_length; exact H).
  rewrite (map_nth (fun k => (k, addr_of k)) (seq 0 n) 0%nat i), seq_nth by exact H. reflexivity.
Qed.

Lemma addr_small i : N.of_nat i < 61440 -> addr_of i = 4096 + N.of_nat i.
Proof. intros H. unfold addr_of, base_address. apply N.mod_small. lia. Qed.

(* all distinct (for every network that fits the 16-bit address space above 0x1000) *)
Theorem addresses_distinct n : N.of_nat n <= 61440 -> NoDup (map snd (addressed n)).
Proof.
  intros H. unfold addressed. rewrite map_map. cbn [snd].
  assert (G : forall s m, N.of_nat (s + m) <= 61440 -> NoDup (map addr_of (seq s m))).
  { intros s m. revert s. induction m as [|m IH]; intros s B; cbn [seq map]; [constructor|].
    constructor; [|apply IH; lia].
    rewrite in_map_iff. intros (j & E & J). apply in_seq in J. rewrite !addr_small in E by lia. lia. }
  apply (G 0%nat n). exact H.
Qed.

(* every device lands in exactly one group: the groups are a partition of the discovered list *)
Lemma filter_partition {A} (f : A -> nat) (l : list A) k :
  Forall (fun x => (f x < k)%nat) l ->
  Permutation (concat (map (fun g => filter (fun x => Nat.eqb (f x) g) l) (seq 0 k))) l.
Proof.
  revert l. induction k as [|k IH]; intros l F.
  - destruct l as [|x r]; [constructor|]. inversion F as [|? ? Fx _]; lia.
  - rewrite seq_S, map_app, concat_app. cbn [map concat plus]. rewrite app_nil_r.
    (* split l into the elements of the last group and the rest *)
    transitivity (filter (fun x => negb (Nat.eqb (f x) k)) l ++ filter (fun x => Nat.eqb (f x) k) l).
    + apply Permutation_app_tail.
      assert (E : forall g, (g < k)%nat -> filter (fun x => Nat.eqb (f x) g) l
                  = filter (fun x => Nat.eqb (f x) g) (filter (fun x => negb (Nat.eqb (f x) k)) l)).
      { intros g Hg. clear -Hg. induction l as [|x r IHl]; [reflexivity|]. cbn [filter].
        destruct (Nat.eqb_spec (f x) g) as [E|NE].
        - subst g. replace (Nat.eqb (f x) k) with false by (symmetry; apply Nat.eqb_neq; lia).
          cbn [negb filter]. rewrite Nat.eqb_refl. f_equal. exact IHl.
        - destruct (negb (Nat.eqb (f x) k)); cbn [filter]; [|exact IHl].
          replace (Nat.eqb (f x) g) with false by (symmetry; apply Nat.eqb_neq; exact NE). exact IHl. }
      rewrite (map_ext_in _ (fun g => filter (fun x => Nat.eqb (f x) g) (filter (fun x => negb (Nat.eqb (f x) k)) l))).
      * apply IH. clear -F. induction l as [|x r IHl]; [constructor|]. inversion F as [|? ? Fx Fr]; subst. cbn [filter].
        destruct (Nat.eqb_spec (f x) k); cbn [negb]; [apply IHl; exact Fr|]. constructor; [lia|apply IHl; exact Fr].
      * intros g Hg. apply in_seq in Hg. apply E. lia.
    + clear. induction l as [|x r IHl]; [constructor|]. cbn [filter]. destruct (Nat.eqb (f x) k); cbn [negb].
      * symmetry. apply Permutation_cons_app. symmetry. exact IHl.
      * cbn [app]. constructor. exact IHl.
Qed.

Theorem groups_partition max ngroups n assign gs :
  init_groups max ngroups n assign = Ok gs -> (0 < n)%nat ->
  Permutation (concat gs) (addressed n) /\ length gs = ngroups /\ (n <= max)%nat.
Proof.
  unfold init_groups. destruct (n =? 0)%nat eqn:E0; [apply Nat.eqb_eq in E0; lia|].
  destruct (max <? n)%nat eqn:EM; [discriminate|]. apply Nat.ltb_ge in EM.
  destruct (existsb _ (addressed n)) eqn:EX; [discriminate|]. intros H _. inversion H; subst; clear H.
  split; [|split; [rewrite map_length, seq_length; reflexivity|exact EM]].
  apply (filter_partition (fun p => assign (fst p)) (addressed n) ngroups).
  rewrite Forall_forall. intros p Hp.
  destruct (Nat.lt_ge_cases (assign (fst p)) ngroups) as [L|G]; [exact L|].
  exfalso. assert (X : existsb (fun p0 => (ngroups <=? assign (fst p0))%nat) (addressed n) = true).
  { apply existsb_exists. exists p. split; [exact Hp|]. apply Nat.leb_le. exact G. }
  congruence.
Qed.

(* more devices than the caller's capacity: an error *)
Theorem capacity_error max ngroups n assign : (max < n)%nat -> init_groups max ngroups n assign = Err ICapacity.
Proof.
  intros H. unfold init_groups. replace (n =? 0)%nat with false by (symmetry; apply Nat.eqb_neq; lia).
  replace (max <? n)%nat with true by (symmetry; apply Nat.ltb_lt; exact H). reflexivity.
Qed.

(* an empty network: empty groups *)
Theorem empty_network max ngroups assign : init_groups max ngroups 0 assign = Ok (repeat [] ngroups).
Proof. reflexivity. Qed.
