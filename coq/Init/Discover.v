(* C09: what MainDevice::init does with n discovered devices (src/maindevice.rs init): station
   addresses by ring position, the capacity check, and the hand-out to groups through the
   caller's filter.  No proofs here. *)
From EC Require Import Base.Prelude Base.Bytes.
Local Open Scope N_scope.

Inductive ierr := ICapacity | IUnknownGroup.

Definition base_address : N := 4096.
Definition addr_of (i : nat) : N := (base_address + N.of_nat i) mod 65536.   (* wrapping_add *)

(* positions 0..n-1 with their station addresses *)
Definition addressed (n : nat) : list (nat * N) := map (fun i => (i, addr_of i)) (seq 0 n).

(* the caller's filter names a group for every device: [assign pos] *)
Definition group (assign : nat -> nat) (l : list (nat * N)) (g : nat) : list (nat * N) :=
  filter (fun p => Nat.eqb (assign (fst p)) g) l.

Definition init_groups (max ngroups n : nat) (assign : nat -> nat) : res ierr (list (list (nat * N))) :=
  if (n =? 0)%nat then Ok (repeat [] ngroups)
  else if (max <? n)%nat then Err ICapacity
  else if existsb (fun p => (ngroups <=? assign (fst p))%nat) (addressed n) then Err IUnknownGroup
  else Ok (map (group assign (addressed n)) (seq 0 ngroups)).

Definition obs_init (max ngroups n : nat) (assign : list nat) : list Z :=
  match init_groups max ngroups n (fun i => nth i assign 0%nat) with
  | Ok gs => (0 :: concat (map (fun g => concat (map (fun p => [Z.of_nat (fst p); Z.of_N (snd p)]) g) ++ [-7]) gs))%Z
  | Err ICapacity => [1]%Z
  | Err IUnknownGroup => [2]%Z
  | Panic _ => [-98]%Z | Hang => [-99]%Z
  end.
