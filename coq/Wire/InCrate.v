(* Instantiation of the generic C19 theorems at every layout / enum the translator found in
   /repo's sources (Gen/SrcLayouts.v is regenerated on every run). *)
From Coq Require Import String.
From EC Require Import Base.Prelude Base.Bytes Wire.Layout Wire.LayoutProofs Wire.EnumProofs Gen.SrcLayouts.
Local Open Scope N_scope.

Definition layout_valid (l : layout) : bool :=
  match place l with Ok ps => forallb kind_ok ps | _ => false end.

Definition nodupZ (l : list Z) : bool :=
  (fix go l := match l with [] => true | x :: r => negb (existsb (Z.eqb x) r) && go r end) l.

Definition in_reprb (e : enum_def) (d : Z) : bool :=
  (if esigned e then (- (repr_mod e / 2) <=? d) && (d <? repr_mod e / 2)
   else (0 <=? d) && (d <? repr_mod e))%Z.

Definition enum_valid (e : enum_def) : bool :=
  (1 <=? erepr_bytes e) && nodupZ (map snd (arms e)) &&
  forallb (in_reprb e) (map snd (arms e)).

Lemma src_layouts_valid : forallb (fun nl => layout_valid (snd nl)) src_layouts = true.
Proof. vm_compute. reflexivity. Qed.

Lemma src_enums_valid : forallb (fun ne => enum_valid (snd ne)) src_enums = true.
Proof. vm_compute. reflexivity. Qed.

Lemma nodupZ_NoDup l : nodupZ l = true -> NoDup l.
Proof.
  induction l as [|x r IH]; intros H; [constructor|].
  cbn in H. apply andb_true_iff in H as [H1 H2]. constructor; auto.
  intros I. apply negb_true_iff in H1.
  assert (E : existsb (Z.eqb x) r = true) by (apply existsb_exists; exists x; split; auto; apply Z.eqb_refl).
  congruence.
Qed.

Lemma in_reprb_spec e d : in_reprb e d = true -> in_repr e d.
Proof. unfold in_reprb, in_repr. destruct (esigned e); lia. Qed.

(* every in-crate struct: round trip and exact positions *)
Theorem incrate_struct_roundtrip name l ps vs bs tail :
  In (name, l) src_layouts -> place l = Ok ps ->
  Forall2 (fun p v => in_range p v = true) ps vs -> wf_bytes tail ->
  pack l vs = Ok bs ->
  of_le bs = fields_val ps vs /\
  unpack_placed (size_bytes l) ps (bs ++ tail) =
    Ok (map (fun pv => canon (fst pv) (snd pv)) (combine ps vs)).
Proof.
  intros I P R W H.
  pose proof src_layouts_valid as V. rewrite forallb_forall in V. specialize (V _ I).
  cbn [snd] in V. unfold layout_valid in V. rewrite P in V.
  split.
  - eapply pack_positions; eauto.
  - eapply roundtrip; eauto.
Qed.

Theorem incrate_struct_placed name l :
  In (name, l) src_layouts -> exists ps, place l = Ok ps /\ forallb kind_ok ps = true.
Proof.
  intros I. pose proof src_layouts_valid as V. rewrite forallb_forall in V. specialize (V _ I).
  cbn [snd] in V. unfold layout_valid in V. destruct (place l); try discriminate. eauto.
Qed.

Theorem incrate_enum_roundtrip name e i :
  In (name, e) src_enums ->
  (i < length (evariants e))%nat -> vcatch (nth i (evariants e) dummy_variant) = false ->
  enum_unpack e (enum_pack e (EV i 0)) = Ok (EV i 0).
Proof.
  intros I Hi C.
  pose proof src_enums_valid as V. rewrite forallb_forall in V. specialize (V _ I).
  cbn [snd] in V. unfold enum_valid in V.
  apply andb_true_iff in V as [V V4]. apply andb_true_iff in V as [V1 V3].
  apply enum_roundtrip; auto.
  - lia.
  - apply nodupZ_NoDup; auto.
  - apply in_reprb_spec. rewrite forallb_forall in V4. apply V4.
    change (nth i (macro_discs (evariants e) macro_accum0) 0%Z)
      with (snd (i, nth i (macro_discs (evariants e) macro_accum0) 0%Z)).
    apply in_map. unfold arms. change i with (0 + i)%nat at 1.
    apply arms_go_in; auto. apply macro_discs_length.
Qed.
