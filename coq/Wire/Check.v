(* Executable comparison functions used by the correspondence check of C19: the harness prints
   what the REAL derive macro did with a buffer, these compute what the model says. *)
From EC Require Import Base.Prelude Base.Bytes Wire.Layout.
Local Open Scope N_scope.

(* how a field's raw bits are interpreted by the field's own type *)
Inductive fty := FRaw | FEnum (e : enum_def) | FInner (l : layout).

Definition canon_field (ty : fty) (raw : N) : res werr N :=
  match ty with
  | FRaw => Ok raw
  | FEnum e =>
    let? v := enum_unpack e (Z.of_N raw) in Ok (Z.to_N (enum_pack e v))
  | FInner l =>
    match place l with
    | Ok ps =>
      let sz := size_bytes l in
      let? fs := unpack_placed sz ps (le_bytes sz raw) in
      Ok (of_le (pack_placed sz ps fs))
    | _ => Err InvalidValue
    end
  end.

Fixpoint canon_all (tys : list fty) (raws : list N) : res werr (list N) :=
  match tys, raws with
  | ty :: tr, x :: xr =>
    let? c := canon_field ty x in
    let? cr := canon_all tr xr in Ok (c :: cr)
  | _, _ => Ok []
  end.

Definition zs (l : list N) : list Z := map Z.of_N l.

(* observation vector: [-1] short read, [-3] invalid value, [-9] layout rejected,
   0 :: nfields :: fields ++ repacked bytes ++ [checked-pack verdict] *)
Definition struct_case (l : layout) (tys : list fty) (buf : list N) (dst_len : nat) : list Z :=
  match place l with
  | Ok ps =>
    let sz := size_bytes l in
    match unpack_placed sz ps buf with
    | Err ReadBufferTooShort => [-1]%Z
    | Err _ => [-3]%Z
    | Ok raws =>
      match canon_all tys raws with
      | Ok cs =>
        (0 :: Z.of_nat (length cs) :: zs cs ++ zs (pack_placed sz ps cs) ++
           [match pack_to_slice sz ps cs dst_len with Ok _ => 1 | _ => -2 end])%Z
      | _ => [-3]%Z
      end
    | _ => [-9]%Z
    end
  | _ => [-9]%Z
  end.

Definition enum_case (e : enum_def) (buf : list N) : list Z :=
  let n := N.to_nat (erepr_bytes e) in
  if (length buf <? n)%nat then [-1]%Z else
  match enum_unpack e (Z.of_N (of_le (firstn n buf))) with
  | Ok (EV i pl) =>
    (0 :: Z.of_nat i :: pl :: zs (le_bytes n (Z.to_N (enum_pack e (EV i pl)))))%Z
  | _ => [-3]%Z
  end.

(* indices of cases whose expected observation differs from the model's, with the model's *)
Fixpoint mismatches {A} (run : A -> list Z) (cases : list (A * list Z)) (i : N) : list (N * list Z) :=
  match cases with
  | [] => []
  | (c, expect) :: r =>
    let got := run c in
    if list_eq_dec Z.eq_dec got expect then mismatches run r (i + 1)
    else (i, got) :: mismatches run r (i + 1)
  end.

(* pack direction: field numbers given directly (any value of the field's type) *)
Definition pack_case (l : layout) (vs : list N) : list Z :=
  match place l with
  | Ok ps => zs (pack_placed (size_bytes l) ps vs)
  | _ => [-9]%Z
  end.
