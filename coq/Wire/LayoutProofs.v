From EC Require Import Base.Prelude Base.Bytes Base.BytesProofs Wire.Layout.
Local Open Scope N_scope.

(* ---------- finite bit-level facts (sweeps over one byte) ---------- *)

Definition Nrange (n : N) : list N := map N.of_nat (seq 0 (N.to_nat n)).

Lemma Nrange_in n x : x < n -> In x (Nrange n).
Proof.
  intros H. unfold Nrange. apply in_map_iff. exists (N.to_nat x). split; [lia|].
  apply in_seq. lia.
Qed.

(* OR of the shifted, masked value into a byte whose bits >= off are clear is an addition *)
Definition or_case (off bits : N) : bool :=
  if (off + bits <=? 8) then
    forallb (fun v => forallb (fun b =>
      N.lor b (N.land (N.shiftl v off mod 256) (fmask bits off)) =? b + v * 2 ^ off)
      (Nrange (2 ^ off))) (Nrange (2 ^ bits))
  else true.

Lemma or_sweep :
  forallb (fun off => forallb (fun bits => or_case off bits) (Nrange 9)) (Nrange 9) = true.
Proof. vm_compute. reflexivity. Qed.

Lemma or_add off bits v b :
  off + bits <= 8 -> v < 2 ^ bits -> b < 2 ^ off ->
  N.lor b (N.land (N.shiftl v off mod 256) (fmask bits off)) = b + v * 2 ^ off.
Proof.
  intros H1 H2 H3.
  pose proof or_sweep as S.
  assert (Io : In off (Nrange 9)) by (apply Nrange_in; lia).
  assert (Ib : In bits (Nrange 9)) by (apply Nrange_in; lia).
  rewrite forallb_forall in S. specialize (S off Io).
  rewrite forallb_forall in S. specialize (S bits Ib).
  unfold or_case in S.
  replace (off + bits <=? 8) with true in S by lia.
  rewrite forallb_forall in S. specialize (S v (Nrange_in _ _ H2)).
  rewrite forallb_forall in S. specialize (S b (Nrange_in _ _ H3)).
  lia.
Qed.

Definition and_case (off bits b : N) : bool :=
  if (off + bits <=? 8) then
    N.shiftr (N.land b (fmask bits off)) off =? (b / 2 ^ off) mod 2 ^ bits
  else true.

Lemma and_sweep :
  forallb (fun off => forallb (fun bits => forallb (fun b =>
    and_case off bits b) (Nrange 256)) (Nrange 9)) (Nrange 9) = true.
Proof. vm_compute. reflexivity. Qed.

Lemma and_shift off bits b :
  off + bits <= 8 -> b < 256 ->
  N.shiftr (N.land b (fmask bits off)) off = (b / 2 ^ off) mod 2 ^ bits.
Proof.
  intros H1 Hb.
  pose proof and_sweep as S.
  assert (Io : In off (Nrange 9)) by (apply Nrange_in; lia).
  assert (Ib : In bits (Nrange 9)) by (apply Nrange_in; lia).
  rewrite forallb_forall in S. specialize (S off Io).
  rewrite forallb_forall in S. specialize (S bits Ib).
  rewrite forallb_forall in S. specialize (S b (Nrange_in _ _ Hb)).
  unfold and_case in S. replace (off + bits <=? 8) with true in S by lia. lia.
Qed.

(* ---------- what [place] + [kind_ok] guarantee ---------- *)

Definition good (p : placed) : Prop :=
  match pk p with
  | KMulti => pstart p mod 8 = 0 /\ pbits p mod 8 = 0 /\ 8 < pbits p
  | _ => pstart p mod 8 + pbits p <= 8 /\ 1 <= pbits p
  end.

(* fields are laid out left to right without overlap, inside [cur, fin] *)
Fixpoint chain (ps : list placed) (cur fin : N) : Prop :=
  match ps with
  | [] => cur <= fin
  | p :: r =>
    if pskip p then chain r cur fin
    else cur <= pstart p /\ good p /\ chain r (pstart p + pbits p) fin
  end.

Lemma chain_weaken ps c1 c2 fin : c1 <= c2 -> chain ps c2 fin -> chain ps c1 fin.
Proof.
  revert c1 c2; induction ps as [|p r IH]; intros c1 c2 H; cbn [chain].
  - lia.
  - destruct (pskip p); [apply IH; auto|]. intros (A & B & C). repeat split; auto. lia.
Qed.

Lemma place_go_chain fs : forall cur ps fin,
  place_go fs cur = Ok (ps, fin) -> forallb kind_ok ps = true -> chain ps cur fin.
Proof.
  induction fs as [|f r IH]; intros cur ps fin H K; cbn [place_go] in H.
  - inversion H; subst. cbn. lia.
  - destruct (fskip f) eqn:Sk.
    + destruct (place_go r cur) as [[ps' c]| | |] eqn:E; cbn [rbind] in H; try discriminate.
      inversion H; subst. cbn [chain pskip]. cbn [forallb] in K.
      apply andb_true_iff in K as [_ K]. eapply IH; eauto.
    + destruct (fwidth f) as [w|]; [|discriminate].
      set (p := {| pk := fk f; pskip := false; pstart := cur + fpre f; pbits := w |}) in *.
      destruct ((1 <? byte_end p - byte_start p) && ((0 <? bit_off p) || (0 <? w mod 8))) eqn:E1;
        [discriminate|].
      destruct ((w <? 8) && (1 <? byte_end p - byte_start p)) eqn:E2; [discriminate|].
      destruct (place_go r (cur + fpre f + w + fpost f)) as [[ps' c]| | |] eqn:E;
        cbn [rbind] in H; try discriminate.
      inversion H; subst. cbn [forallb] in K. apply andb_true_iff in K as [K1 K].
      cbn [chain]. replace (pskip p) with false by reflexivity.
      split; [subst p; cbn; lia|]. split.
      * unfold good, kind_ok in *. unfold byte_end, byte_start, bit_off in *.
        subst p; cbn [pk pskip pstart pbits] in *. cbn [orb] in K1.
        destruct (fk f); lia.
      * eapply chain_weaken; [|eapply IH; eauto]. subst p; cbn. lia.
Qed.

Lemma chain_le ps : forall cur fin, chain ps cur fin -> cur <= fin.
Proof.
  induction ps as [|p r IH]; intros cur fin; cbn [chain]; [lia|].
  destruct (pskip p); [apply IH|]. intros (A & B & C). apply IH in C. lia.
Qed.

(* ---------- byte-list arithmetic ---------- *)

Lemma pow256 k : 256 ^ N.of_nat k = 2 ^ (8 * N.of_nat k).
Proof. rewrite N.pow_mul_r. reflexivity. Qed.

Lemma nth_small buf : forall k off,
  wf_bytes buf -> of_le buf < 2 ^ (8 * N.of_nat k + off) -> nth k buf 0 < 2 ^ off.
Proof.
  induction buf as [|a r IH]; intros k off W H.
  - destruct k; cbn; apply N.neq_0_lt_0; apply N.pow_nonzero; lia.
  - inversion W as [|? ? Ha Wr]; subst. destruct k as [|k]; cbn [nth].
    + cbn [of_le] in H. replace (8 * N.of_nat 0 + off) with off in H by lia. lia.
    + apply IH; auto. cbn [of_le] in H.
      replace (8 * N.of_nat (S k) + off) with (8 + (8 * N.of_nat k + off)) in H by lia.
      rewrite N.pow_add_r in H. change (2^8) with 256 in H. lia.
Qed.

Lemma splice0 s : forall l, of_le l = 0 -> (length s <= length l)%nat ->
  of_le (splice 0 s l) = of_le s.
Proof.
  induction s as [|x s IH]; intros l Z L.
  - destruct l; cbn; auto.
  - destruct l as [|a l]; cbn [length] in L; [lia|].
    cbn [splice of_le] in *. rewrite IH; [auto|lia|lia].
Qed.

Lemma of_le_splice buf : forall k src,
  of_le buf < 256 ^ N.of_nat k -> (k + length src <= length buf)%nat ->
  of_le (splice k src buf) = of_le buf + of_le src * 256 ^ N.of_nat k.
Proof.
  induction buf as [|a r IH]; intros k src H L.
  - cbn [length] in L. destruct src; cbn [length] in L; [|lia].
    destruct k; cbn; lia.
  - destruct k as [|k].
    + cbn [N.of_nat] in *. rewrite N.pow_0_r in *.
      assert (Z : of_le (a :: r) = 0) by lia.
      destruct src as [|s src].
      * cbn. lia.
      * change (splice 0 (s :: src) (a :: r)) with (s :: splice 0 src r).
        cbn [of_le] in *. rewrite splice0; [lia|lia|cbn [length] in L; lia].
    + cbn [splice of_le]. rewrite Nat2N.inj_succ, N.pow_succ_r' in *.
      cbn [of_le] in H. rewrite IH; [lia|lia|cbn [length] in L; lia].
Qed.

Lemma wf_splice buf : forall k src, wf_bytes buf -> wf_bytes src -> wf_bytes (splice k src buf).
Proof.
  unfold wf_bytes. induction buf as [|a r IH]; intros k src W S; cbn [splice]; auto.
  inversion W; subst. destruct k.
  - destruct src; [constructor; auto|]. inversion S; subst. constructor; auto.
  - constructor; auto.
Qed.

Lemma pow_split s : 2 ^ s = 2 ^ (s mod 8) * 256 ^ (s / 8).
Proof.
  rewrite (N.div_mod s 8) at 1 by lia.
  rewrite N.pow_add_r, N.pow_mul_r. change (2^8) with 256. lia.
Qed.

(* ---------- one pack step ---------- *)

Lemma pack_sub_inv s bits v buf fin :
  s mod 8 + bits <= 8 -> 1 <= bits -> s + bits <= fin ->
  length buf = N.to_nat ((fin + 7) / 8) -> wf_bytes buf -> of_le buf < 2 ^ s ->
  v < 2 ^ bits ->
  let k := N.to_nat (s / 8) in
  let buf' := upd k (N.lor (nth k buf 0)
                  (N.land (N.shiftl v (s mod 8) mod 256) (fmask bits (s mod 8)))) buf in
  length buf' = length buf /\ wf_bytes buf' /\
  of_le buf' = of_le buf + v * 2 ^ s /\
  of_le buf' < 2 ^ (s + bits).
Proof.
  intros G1 G2 F L W Hlt Hv k.
  assert (Hk : N.of_nat k = s / 8) by (subst k; lia).
  assert (Hb : nth k buf 0 < 2 ^ (s mod 8)).
  { apply nth_small; auto. rewrite Hk.
    replace (8 * (s / 8) + s mod 8) with s by (pose proof (N.div_mod s 8); lia). exact Hlt. }
  rewrite (or_add (s mod 8) bits v (nth k buf 0)) by (auto; lia).
  assert (Hkl : (k < length buf)%nat) by (rewrite L; subst k; lia).
  assert (Hnew : nth k buf 0 + v * 2 ^ (s mod 8) < 2 ^ (s mod 8 + bits))
    by (rewrite N.pow_add_r; nia).
  assert (H256 : 2 ^ (s mod 8 + bits) <= 256)
    by (change 256 with (2^8); apply N.pow_le_mono_r; lia).
  cbv zeta. split; [apply upd_length|]. split; [apply wf_upd; auto; lia|].
  pose proof (of_le_upd k (nth k buf 0 + v * 2 ^ (s mod 8)) buf Hkl) as U.
  rewrite Hk in U. rewrite (pow_split s).
  split; [nia|].
  rewrite N.pow_add_r. rewrite (pow_split s) in Hlt. rewrite (pow_split s).
  assert (P1 : 0 < 256 ^ (s / 8)) by (apply N.neq_0_lt_0; apply N.pow_nonzero; lia).
  assert (P2 : 0 < 2 ^ (s mod 8)) by (apply N.neq_0_lt_0; apply N.pow_nonzero; lia).
  clear Hnew H256 Hb.
  generalize dependent (of_le (upd k (nth k buf 0 + v * 2 ^ (s mod 8)) buf)).
  generalize dependent (of_le buf). generalize dependent (nth k buf 0).
  generalize dependent (256 ^ (s / 8)). generalize dependent (2 ^ (s mod 8)).
  generalize dependent (2 ^ bits). clear.
  intros C Hv B PB A PA n X HX X' U.
  assert (E : X' = X + v * B * A) by nia.
  subst X'. assert (v + 1 <= C) by lia.
  assert (X + v * B * A < (v + 1) * (B * A)) by nia.
  eapply N.lt_le_trans; [eassumption|]. 
  replace (B * A * C) with (C * (B * A)) by lia.
  apply N.mul_le_mono_r. assumption.
Qed.

Lemma pack_field_inv p v buf cur fin :
  pskip p = false -> good p -> cur <= pstart p -> pstart p + pbits p <= fin ->
  length buf = N.to_nat ((fin + 7) / 8) -> wf_bytes buf -> of_le buf < 2 ^ cur ->
  in_range p v = true ->
  let buf' := pack_field buf (p, v) in
  length buf' = length buf /\ wf_bytes buf' /\
  of_le buf' = of_le buf + v * 2 ^ pstart p /\
  of_le buf' < 2 ^ (pstart p + pbits p).
Proof.
  intros Sk G C F L W B R. unfold pack_field. rewrite Sk.
  unfold in_range in R. rewrite Sk in R.
  assert (Hlt : of_le buf < 2 ^ pstart p).
  { eapply N.lt_le_trans; [exact B|]. apply N.pow_le_mono_r; lia. }
  unfold good in G. unfold byte_start, bit_off.
  destruct (pk p) eqn:K.
  - destruct G as [G1 G2]. apply pack_sub_inv with (fin := fin); auto. lia.
  - destruct G as [G1 G2]. apply pack_sub_inv with (fin := fin); auto.
    eapply N.lt_le_trans; [apply N.ltb_lt; exact R|].
    change 2 with (2^1) at 1; apply N.pow_le_mono_r; lia.
  - destruct G as [G1 G2]. apply pack_sub_inv with (fin := fin); auto. lia.
  - (* KMulti *)
    destruct G as (G1 & G2 & G3).
    assert (Hv : v < 2 ^ pbits p) by lia.
    set (k := N.to_nat (pstart p / 8)).
    set (n := N.to_nat (pbits p / 8)).
    assert (Hn : pbits p = 8 * N.of_nat n) by (subst n; pose proof (N.div_mod (pbits p) 8); lia).
    assert (Hs : pstart p = 8 * N.of_nat k) by (subst k; pose proof (N.div_mod (pstart p) 8); lia).
    assert (Hsrc : length (le_bytes n v) = n) by apply le_bytes_length.
    assert (Hfit : (k + n <= length buf)%nat).
    { rewrite L. assert (8 * (N.of_nat k + N.of_nat n) <= fin) by lia. lia. }
    cbv zeta. split; [apply splice_length|]. split; [apply wf_splice; auto; apply le_bytes_wf|].
    rewrite of_le_splice; [|rewrite pow256, <- Hs; exact Hlt|rewrite Hsrc; exact Hfit].
    rewrite of_le_le_bytes by (rewrite pow256, <- Hn; exact Hv).
    rewrite pow256, <- Hs. split; [reflexivity|].
    rewrite N.pow_add_r.
    assert (P1 : 0 < 2 ^ pstart p) by (apply N.neq_0_lt_0; apply N.pow_nonzero; lia).
    nia.
Qed.

(* ---------- pack: every field at its declared bit position, nothing else set ---------- *)

Lemma pack_fold_spec ps : forall vs buf cur fin,
  chain ps cur fin -> Forall2 (fun p v => in_range p v = true) ps vs ->
  length buf = N.to_nat ((fin + 7) / 8) -> wf_bytes buf -> of_le buf < 2 ^ cur ->
  let buf' := fold_left pack_field (combine ps vs) buf in
  length buf' = length buf /\ wf_bytes buf' /\ of_le buf' = of_le buf + fields_val ps vs.
Proof.
  induction ps as [|p r IH]; intros vs buf cur fin C R L W B; inversion R as [|? v ? vs' Rp Rr]; subst.
  - cbn. repeat split; auto. lia.
  - cbn [combine fold_left fields_val]. cbn [chain] in C.
    destruct (pskip p) eqn:Sk.
    + assert (E : pack_field buf (p, v) = buf) by (unfold pack_field; rewrite Sk; reflexivity).
      rewrite E. specialize (IH vs' buf cur fin C Rr L W B). cbv zeta in IH.
      destruct IH as (A1 & A2 & A3). rewrite N.add_0_l. repeat split; auto.
    + destruct C as (C1 & C2 & C3).
      pose proof (chain_le _ _ _ C3) as Cle.
      destruct (pack_field_inv p v buf cur fin Sk C2 C1 Cle L W B Rp) as (P1 & P2 & P3 & P4).
      specialize (IH vs' (pack_field buf (p, v)) (pstart p + pbits p) fin C3 Rr
                     ltac:(rewrite P1; exact L) P2 P4).
      cbv zeta in IH. destruct IH as (A1 & A2 & A3). repeat split; auto; try lia.
Qed.

Theorem pack_positions l ps vs bs :
  place l = Ok ps -> forallb kind_ok ps = true ->
  Forall2 (fun p v => in_range p v = true) ps vs ->
  pack l vs = Ok bs ->
  length bs = size_bytes l /\ wf_bytes bs /\ of_le bs = fields_val ps vs.
Proof.
  intros P K R H. unfold pack in H. rewrite P in H. cbn [rbind] in H. inversion H; subst; clear H.
  unfold place in P.
  destruct (place_go (lfields l) 0) as [[ps' c]| | |] eqn:E; cbn [rbind] in P; try discriminate.
  destruct (c =? lwidth l) eqn:Ec; [|discriminate]. inversion P; subst ps'; clear P.
  apply N.eqb_eq in Ec; subst c.
  pose proof (place_go_chain _ _ _ _ E K) as C.
  unfold pack_placed, size_bytes.
  destruct (pack_fold_spec ps vs (zeros (N.to_nat ((lwidth l + 7) / 8))) 0 (lwidth l) C R)
    as (A1 & A2 & A3).
  - apply zeros_length.
  - apply wf_zeros.
  - rewrite of_le_zeros. cbn. lia.
  - rewrite zeros_length in A1. rewrite of_le_zeros in A3. repeat split; auto.
Qed.

(* ---------- unpack: each field read from its declared position ---------- *)

Lemma nth_of_le buf : forall k, wf_bytes buf ->
  nth k buf 0 = (of_le buf / 256 ^ N.of_nat k) mod 256.
Proof.
  induction buf as [|a r IH]; intros k W.
  - destruct k; cbn [nth of_le]; rewrite N.div_0_l, N.mod_0_l; try lia;
      apply N.pow_nonzero; lia.
  - inversion W; subst. destruct k as [|k]; cbn [nth of_le].
    + cbn [N.of_nat]. rewrite N.pow_0_r, N.div_1_r.
      replace (a + 256 * of_le r) with (a + of_le r * 256) by lia.
      rewrite N.mod_add by lia. rewrite N.mod_small; auto.
    + rewrite IH by auto. rewrite Nat2N.inj_succ, N.pow_succ_r'.
      rewrite <- N.div_div by (try lia; apply N.pow_nonzero; lia).
      replace (a + 256 * of_le r) with (a + of_le r * 256) by lia.
      rewrite N.div_add by lia. rewrite (N.div_small a 256) by auto. reflexivity.
Qed.

Lemma slice_of_le buf : forall k n, wf_bytes buf -> (k + n <= length buf)%nat ->
  of_le (slice k (k + n) buf) = (of_le buf / 256 ^ N.of_nat k) mod 256 ^ N.of_nat n.
Proof.
  unfold slice. intros k n W L. replace (k + n - k)%nat with n by lia.
  rewrite <- (firstn_skipn k buf) at 2.
  assert (Lk : length (firstn k buf) = k) by (rewrite firstn_length; lia).
  rewrite of_le_app, Lk.
  assert (Wf : wf_bytes (firstn k buf)) by (apply wf_firstn; auto).
  assert (Ws : wf_bytes (skipn k buf)) by (apply wf_skipn; auto).
  pose proof (of_le_bound _ Wf) as Bf. rewrite Lk in Bf.
  replace (of_le (firstn k buf) + 256 ^ N.of_nat k * of_le (skipn k buf))
    with (of_le (firstn k buf) + of_le (skipn k buf) * 256 ^ N.of_nat k) by lia.
  rewrite N.div_add by (apply N.pow_nonzero; lia).
  rewrite N.div_small by auto. rewrite N.add_0_l.
  set (t := skipn k buf) in *.
  assert (Lt : (n <= length t)%nat) by (subst t; rewrite skipn_length; lia).
  clearbody t. clear - Ws Lt.
  rewrite <- (firstn_skipn n t) at 2. rewrite of_le_app.
  assert (Ln : length (firstn n t) = n) by (rewrite firstn_length; lia).
  rewrite Ln.
  assert (Wf : wf_bytes (firstn n t)) by (apply wf_firstn; auto).
  pose proof (of_le_bound _ Wf) as Bf. rewrite Ln in Bf.
  replace (of_le (firstn n t) + 256 ^ N.of_nat n * of_le (skipn n t))
    with (of_le (firstn n t) + of_le (skipn n t) * 256 ^ N.of_nat n) by lia.
  rewrite N.mod_add by (apply N.pow_nonzero; lia).
  rewrite N.mod_small; auto.
Qed.

Lemma digit_low Y off bits : off + bits <= 8 ->
  ((Y mod 256) / 2 ^ off) mod 2 ^ bits = (Y / 2 ^ off) mod 2 ^ bits.
Proof.
  intros H. rewrite (N.div_mod Y 256) at 2 by lia.
  set (q := Y / 256). set (r := Y mod 256).
  assert (E : 256 = 2 ^ off * (2 ^ bits * 2 ^ (8 - off - bits))).
  { rewrite <- !N.pow_add_r. replace (off + (bits + (8 - off - bits))) with 8 by lia. reflexivity. }
  rewrite E at 1.
  replace (2 ^ off * (2 ^ bits * 2 ^ (8 - off - bits)) * q + r)
    with ((2 ^ bits * 2 ^ (8 - off - bits) * q) * 2 ^ off + r) by lia.
  rewrite N.div_add_l by (apply N.pow_nonzero; lia).
  replace (2 ^ bits * 2 ^ (8 - off - bits) * q + r / 2 ^ off)
    with (r / 2 ^ off + (2 ^ (8 - off - bits) * q) * 2 ^ bits) by lia.
  rewrite N.mod_add by (apply N.pow_nonzero; lia). reflexivity.
Qed.

Definition field_read (X : N) (p : placed) : N :=
  if pskip p then 0 else
  match pk p with
  | KBool => if 0 <? bits_at X (pstart p) (pbits p) then 1 else 0
  | _ => bits_at X (pstart p) (pbits p)
  end.

Lemma unpack_field_spec buf p :
  (pskip p = false -> good p) -> wf_bytes buf ->
  (pskip p = false -> pstart p + pbits p <= 8 * N.of_nat (length buf)) ->
  unpack_field buf p = field_read (of_le buf) p.
Proof.
  intros G W L. unfold unpack_field, field_read.
  destruct (pskip p) eqn:Sk; [reflexivity|].
  specialize (G eq_refl). specialize (L eq_refl). unfold good in G.
  unfold byte_start, byte_end, bit_off, bits_at.
  set (k := N.to_nat (pstart p / 8)).
  assert (Hk : N.of_nat k = pstart p / 8) by (subst k; lia).
  assert (Sub : pstart p mod 8 + pbits p <= 8 ->
     N.shiftr (N.land (nth k buf 0) (fmask (pbits p) (pstart p mod 8))) (pstart p mod 8)
     = (of_le buf / 2 ^ pstart p) mod 2 ^ pbits p).
  { intros G1. rewrite and_shift; auto.
    - rewrite nth_of_le by auto. rewrite digit_low by auto.
      rewrite N.div_div by (apply N.pow_nonzero; lia).
      rewrite Hk. f_equal. f_equal. rewrite (pow_split (pstart p)). lia.
    - rewrite nth_of_le by auto. apply N.mod_lt. lia. }
  destruct (pk p) eqn:K.
  - apply Sub; lia.
  - rewrite Sub by lia. reflexivity.
  - apply Sub; lia.
  - destruct G as (G1 & G2 & G3).
    set (n := N.to_nat (pbits p / 8)).
    assert (Hn : pbits p = 8 * N.of_nat n) by (subst n; pose proof (N.div_mod (pbits p) 8); lia).
    assert (Hs : pstart p = 8 * N.of_nat k) by (subst k; pose proof (N.div_mod (pstart p) 8); lia).
    replace (N.to_nat ((pstart p + pbits p + 7) / 8)) with (k + n)%nat by lia.
    rewrite slice_of_le by (auto; lia).
    rewrite !pow256, <- Hs, <- Hn. reflexivity.
Qed.

(* ---------- digit extraction: reading back what the layout sum holds ---------- *)

Lemma fields_val_mult ps : forall vs c fin, chain ps c fin ->
  exists m, fields_val ps vs = 2 ^ c * m.
Proof.
  induction ps as [|p r IH]; intros vs c fin C.
  - exists 0. cbn. lia.
  - destruct vs as [|v vs]; [exists 0; cbn; lia|].
    cbn [fields_val]. cbn [chain] in C. destruct (pskip p).
    + destruct (IH vs c fin C) as [m Hm]. exists m. lia.
    + destruct C as (C1 & C2 & C3).
      destruct (IH vs _ _ C3) as [m Hm]. rewrite Hm.
      exists (v * 2 ^ (pstart p - c) + 2 ^ (pstart p + pbits p - c) * m).
      replace (pstart p) with (c + (pstart p - c)) at 1 by lia.
      replace (pstart p + pbits p) with (c + (pstart p + pbits p - c)) at 1 by lia.
      rewrite !N.pow_add_r. lia.
Qed.

Lemma extract acc v s b m :
  acc < 2 ^ s -> v < 2 ^ b -> bits_at (acc + (v * 2 ^ s + 2 ^ (s + b) * m)) s b = v.
Proof.
  intros Ha Hv. unfold bits_at.
  replace (acc + (v * 2 ^ s + 2 ^ (s + b) * m)) with (acc + (v + 2 ^ b * m) * 2 ^ s)
    by (rewrite N.pow_add_r; lia).
  rewrite N.div_add by (apply N.pow_nonzero; lia).
  rewrite N.div_small by auto. rewrite N.add_0_l.
  replace (v + 2 ^ b * m) with (v + m * 2 ^ b) by lia.
  rewrite N.mod_add by (apply N.pow_nonzero; lia). apply N.mod_small; auto.
Qed.

Lemma read_back ps : forall vs acc cur fin,
  chain ps cur fin -> Forall2 (fun p v => in_range p v = true) ps vs -> acc < 2 ^ cur ->
  map (field_read (acc + fields_val ps vs)) ps = map (fun pv => canon (fst pv) (snd pv)) (combine ps vs).
Proof.
  induction ps as [|p r IH]; intros vs acc cur fin C R A; inversion R as [|? v ? vs' Rp Rr]; subst.
  - reflexivity.
  - cbn [map combine fields_val fst snd]. cbn [chain] in C.
    destruct (pskip p) eqn:Sk.
    + f_equal.
      * unfold field_read, canon. rewrite Sk. reflexivity.
      * rewrite N.add_0_l. eapply IH; eauto.
    + destruct C as (C1 & C2 & C3).
      assert (Hacc : acc < 2 ^ pstart p).
      { eapply N.lt_le_trans; [exact A|]. apply N.pow_le_mono_r; lia. }
      unfold in_range in Rp. rewrite Sk in Rp. unfold good in C2.
      assert (Hv : v < 2 ^ pbits p).
      { destruct (pk p); try lia.
        eapply N.lt_le_trans; [apply N.ltb_lt; exact Rp|].
        change 2 with (2^1) at 1; apply N.pow_le_mono_r; lia. }
      f_equal.
      * destruct (fields_val_mult r vs' _ _ C3) as [m Hm]. rewrite Hm.
        unfold field_read, canon. rewrite Sk.
        rewrite extract by auto.
        destruct (pk p); auto.
        assert (v = 0 \/ v = 1) as [-> | ->] by lia; reflexivity.
      * replace (acc + (v * 2 ^ pstart p + fields_val r vs'))
          with ((acc + v * 2 ^ pstart p) + fields_val r vs') by lia.
        eapply IH; eauto.
        rewrite N.pow_add_r.
        assert (P1 : 0 < 2 ^ pstart p) by (apply N.neq_0_lt_0; apply N.pow_nonzero; lia).
        nia.
Qed.

Lemma chain_in ps : forall cur fin p, chain ps cur fin -> In p ps -> pskip p = false ->
  good p /\ pstart p + pbits p <= fin.
Proof.
  induction ps as [|q r IH]; intros cur fin p C I Sk; [destruct I|].
  cbn [chain] in C. destruct I as [-> | I].
  - rewrite Sk in C. destruct C as (C1 & C2 & C3). split; auto. apply chain_le in C3. exact C3.
  - destruct (pskip q); [eapply IH; eauto|]. destruct C as (C1 & C2 & C3). eapply IH; eauto.
Qed.

Lemma place_chain l ps : place l = Ok ps -> forallb kind_ok ps = true -> chain ps 0 (lwidth l).
Proof.
  intros P K. unfold place in P.
  destruct (place_go (lfields l) 0) as [[ps' c]| | |] eqn:E; cbn [rbind] in P; try discriminate.
  destruct (c =? lwidth l) eqn:Ec; [|discriminate]. inversion P; subst ps'; clear P.
  apply N.eqb_eq in Ec; subst c. eapply place_go_chain; eauto.
Qed.

Theorem unpack_positions l ps buf :
  place l = Ok ps -> forallb kind_ok ps = true -> wf_bytes buf ->
  (size_bytes l <= length buf)%nat ->
  unpack_placed (size_bytes l) ps buf =
    Ok (map (field_read (of_le (firstn (size_bytes l) buf))) ps).
Proof.
  intros P K W L. pose proof (place_chain _ _ P K) as C.
  unfold unpack_placed. replace (length buf <? size_bytes l)%nat with false by lia.
  f_equal. apply map_ext_in. intros p I.
  apply unpack_field_spec.
  - intros Sk. eapply chain_in; eauto.
  - apply wf_firstn; auto.
  - intros Sk. destruct (chain_in _ _ _ _ C I Sk) as [_ F].
    rewrite firstn_length. unfold size_bytes in *. lia.
Qed.

Theorem unpack_short l ps buf :
  (length buf < size_bytes l)%nat -> unpack_placed (size_bytes l) ps buf = Err ReadBufferTooShort.
Proof. intros H. unfold unpack_placed. replace (length buf <? size_bytes l)%nat with true by lia. reflexivity. Qed.

Theorem pack_to_slice_short l ps vs n :
  (n < size_bytes l)%nat -> pack_to_slice (size_bytes l) ps vs n = Err WriteBufferTooShort.
Proof. intros H. unfold pack_to_slice. replace (n <? size_bytes l)%nat with true by lia. reflexivity. Qed.

Theorem roundtrip l ps vs bs tail :
  place l = Ok ps -> forallb kind_ok ps = true ->
  Forall2 (fun p v => in_range p v = true) ps vs -> wf_bytes tail ->
  pack l vs = Ok bs ->
  unpack_placed (size_bytes l) ps (bs ++ tail) =
    Ok (map (fun pv => canon (fst pv) (snd pv)) (combine ps vs)).
Proof.
  intros P K R Wt H.
  destruct (pack_positions _ _ _ _ P K R H) as (A1 & A2 & A3).
  rewrite unpack_positions; auto.
  - rewrite <- A1, firstn_app, Nat.sub_diag, firstn_all. cbn [firstn]. rewrite app_nil_r.
    rewrite A3. f_equal.
    pose proof (place_chain _ _ P K) as C.
    pose proof (read_back ps vs 0 0 (lwidth l) C R ltac:(cbn; lia)) as RB.
    rewrite N.add_0_l in RB. exact RB.
  - apply wf_app; auto.
  - rewrite app_length. lia.
Qed.

(* undeclared bits are zero: the packed number is exactly the sum of the fields, hence below
   2^width, and reading any field back yields that field *)
Theorem pack_bound l ps vs bs :
  place l = Ok ps -> forallb kind_ok ps = true ->
  Forall2 (fun p v => in_range p v = true) ps vs -> pack l vs = Ok bs ->
  of_le bs < 2 ^ lwidth l.
Proof.
  intros P K R H. destruct (pack_positions _ _ _ _ P K R H) as (A1 & A2 & A3). rewrite A3.
  pose proof (place_chain _ _ P K) as C. clear - C R.
  assert (G : forall ps vs acc cur fin, chain ps cur fin ->
     Forall2 (fun p v => in_range p v = true) ps vs -> acc < 2 ^ cur ->
     acc + fields_val ps vs < 2 ^ fin).
  { clear. induction ps as [|p r IH]; intros vs acc cur fin C R A;
      inversion R as [|? v ? vs' Rp Rr]; subst.
    - cbn in *. eapply N.lt_le_trans; [rewrite N.add_0_r; exact A|]. apply N.pow_le_mono_r; lia.
    - cbn [fields_val]. cbn [chain] in C. destruct (pskip p) eqn:Sk.
      + rewrite N.add_0_l. eapply IH; eauto.
      + destruct C as (C1 & C2 & C3).
        replace (acc + (v * 2 ^ pstart p + fields_val r vs'))
          with ((acc + v * 2 ^ pstart p) + fields_val r vs') by lia.
        eapply IH; eauto.
        assert (Hacc : acc < 2 ^ pstart p).
        { eapply N.lt_le_trans; [exact A|]. apply N.pow_le_mono_r; lia. }
        unfold in_range in Rp. rewrite Sk in Rp. unfold good in C2.
        assert (Hv : v < 2 ^ pbits p).
        { destruct (pk p); try lia.
          eapply N.lt_le_trans; [apply N.ltb_lt; exact Rp|].
          change 2 with (2^1) at 1; apply N.pow_le_mono_r; lia. }
        rewrite N.pow_add_r.
        assert (P1 : 0 < 2 ^ pstart p) by (apply N.neq_0_lt_0; apply N.pow_nonzero; lia).
        nia. }
  specialize (G ps vs 0 0 (lwidth l) C R ltac:(cbn; lia)). lia.
Qed.
