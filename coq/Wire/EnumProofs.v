From EC Require Import Base.Prelude Wire.Layout.
Local Open Scope Z_scope.

Definition in_repr (e : enum_def) (d : Z) : Prop :=
  if esigned e then - (repr_mod e / 2) <= d < repr_mod e / 2 else 0 <= d < repr_mod e.

Lemma repr_mod_pos e : 0 < repr_mod e.
Proof. unfold repr_mod. apply Z.pow_pos_nonneg; lia. Qed.

Lemma repr_mod_even e : (1 <= erepr_bytes e)%N -> repr_mod e = 2 * (repr_mod e / 2).
Proof.
  intros H. unfold repr_mod.
  replace (8 * Z.of_N (erepr_bytes e)) with (1 + (8 * Z.of_N (erepr_bytes e) - 1)) by lia.
  rewrite Z.pow_add_r by lia. change (2^1) with 2.
  rewrite Z.mul_comm, Z.div_mul by lia. lia.
Qed.

Lemma of_to_wire e d : (1 <= erepr_bytes e)%N -> in_repr e d -> of_wire e (to_wire e d) = d.
Proof.
  intros Hb H. unfold in_repr, of_wire, to_wire in *.
  pose proof (repr_mod_pos e) as P. pose proof (repr_mod_even e Hb) as Ev.
  set (M := repr_mod e) in *. set (h := M / 2) in *.
  destruct (esigned e); cbn [andb].
  - destruct (Z_lt_dec d 0).
    + assert (E : d mod M = d + M).
      { symmetry. apply Z.mod_unique with (q := -1); lia. }
      rewrite E. replace (h <=? d + M) with true by lia. lia.
    + rewrite Z.mod_small by lia. replace (h <=? d) with false by lia. reflexivity.
  - apply Z.mod_small; lia.
Qed.

Lemma lookup_arm_none arms x : ~ In x (map snd arms) -> lookup_arm arms x = None.
Proof.
  induction arms as [|[i d] r IH]; cbn [lookup_arm map snd In]; intros H; auto.
  destruct (d =? x) eqn:E; [apply Z.eqb_eq in E; tauto|]. apply IH. tauto.
Qed.

Lemma lookup_arm_in arms i d : NoDup (map snd arms) -> In (i, d) arms -> lookup_arm arms d = Some i.
Proof.
  induction arms as [|[j c] r IH]; cbn [lookup_arm map snd In]; intros N I; [tauto|].
  inversion N as [|? ? Nin Nr]; subst. destruct I as [I | I].
  - inversion I; subst. rewrite Z.eqb_refl. reflexivity.
  - destruct (c =? d) eqn:E.
    + apply Z.eqb_eq in E; subst c. exfalso. apply Nin.
      change d with (snd (i, d)). apply in_map. exact I.
    + apply IH; auto.
Qed.

(* the macro numbers variants exactly like rustc does, for every declaration *)
Lemma discs_agree vs : forall n, macro_discs vs (n - 1) = rustc_discs vs n.
Proof.
  induction vs as [|v r IH]; intros n; cbn [macro_discs rustc_discs]; auto.
  destruct (vdisc v) as [d|].
  - f_equal. rewrite <- IH. f_equal. lia.
  - replace (n - 1 + 1) with n by lia. f_equal. rewrite <- IH. f_equal. lia.
Qed.

Lemma arms_go_in vs : forall ds j i,
  length ds = length vs -> (i < length vs)%nat -> vcatch (nth i vs {| vdisc := None; valts := []; vcatch := true; vdefault := false |}) = false ->
  In ((j + i)%nat, nth i ds 0) (arms_go vs ds j).
Proof.
  induction vs as [|v r IH]; intros ds j i L I C; cbn [length] in *; [lia|].
  destruct ds as [|d dr]; cbn [length] in L; [lia|].
  cbn [arms_go]. destruct i as [|i].
  - cbn [nth] in *. rewrite C. rewrite Nat.add_0_r. cbn. left. reflexivity.
  - apply in_or_app. right. cbn [nth] in *.
    replace (j + S i)%nat with (S j + i)%nat by lia. apply IH; auto; lia.
Qed.

Lemma macro_discs_length vs : forall a, length (macro_discs vs a) = length vs.
Proof. induction vs; intros; cbn; auto. Qed.

Definition dummy_variant := {| vdisc := None; valts := []; vcatch := true; vdefault := false |}.

Theorem enum_alt e i a :
  (1 <= erepr_bytes e)%N -> NoDup (map snd (arms e)) -> In (i, a) (arms e) -> in_repr e a ->
  enum_unpack e (to_wire e a) = Ok (EV i 0).
Proof.
  intros Hb N I R. unfold enum_unpack. rewrite of_to_wire by auto.
  rewrite (lookup_arm_in _ _ _ N I). reflexivity.
Qed.

Theorem enum_roundtrip e i :
  (1 <= erepr_bytes e)%N -> NoDup (map snd (arms e)) ->
  (i < length (evariants e))%nat -> vcatch (nth i (evariants e) dummy_variant) = false ->
  in_repr e (nth i (macro_discs (evariants e) macro_accum0) 0) ->
  enum_unpack e (enum_pack e (EV i 0)) = Ok (EV i 0).
Proof.
  intros Hb N I C R.
  assert (A : In (i, nth i (macro_discs (evariants e) macro_accum0) 0) (arms e)).
  { unfold arms. change i with (0 + i)%nat at 1.
    apply arms_go_in; auto. apply macro_discs_length. }
  unfold enum_pack. destruct (catch_idx e) as [c|] eqn:Ec.
  - destruct (Nat.eqb i c) eqn:E.
    + apply Nat.eqb_eq in E; subst c. exfalso.
      unfold catch_idx in Ec. clear - Ec C I.
      assert (G : forall vs j k, find_idx vcatch vs j = Some k -> (j <= k)%nat /\
                   vcatch (nth (k - j) vs dummy_variant) = true).
      { induction vs as [|v r IH]; intros j k H; cbn [find_idx] in H; [discriminate|].
        destruct (vcatch v) eqn:V.
        - inversion H; subst. rewrite Nat.sub_diag. cbn. auto.
        - apply IH in H as [H1 H2]. split; [lia|].
          replace (k - j)%nat with (S (k - S j)) by lia. cbn [nth]. exact H2. }
      apply G in Ec as [_ Ec]. rewrite Nat.sub_0_r in Ec. congruence.
    + apply enum_alt; auto.
  - pose proof (discs_agree (evariants e) 0) as D. change (0 - 1) with macro_accum0 in D.
    rewrite <- D. apply enum_alt; auto.
Qed.

Theorem enum_undefined e w :
  ~ In (of_wire e w) (map snd (arms e)) ->
  enum_unpack e w =
    match catch_idx e with
    | Some c => Ok (EV c (of_wire e w))
    | None => match default_idx e with Some d => Ok (EV d 0) | None => Err InvalidValue end
    end.
Proof. intros H. unfold enum_unpack. rewrite lookup_arm_none by auto. reflexivity. Qed.

(* The catch-all variant packs its payload *)
Theorem enum_catch_pack e c x : catch_idx e = Some c -> enum_pack e (EV c x) = to_wire e x.
Proof. intros H. unfold enum_pack. rewrite H, Nat.eqb_refl. reflexivity. Qed.

(* Regression for finding F28 (fixed by "fix: number implicit wire enum discriminants like rustc
   does"): an enum with implicit discriminants round-trips. *)
Definition implicit_abc : enum_def :=
  {| erepr_bytes := 1; esigned := false;
     evariants := [ {| vdisc := None; valts := []; vcatch := false; vdefault := false |};
                    {| vdisc := None; valts := [2; 3]; vcatch := false; vdefault := false |};
                    {| vdisc := None; valts := []; vcatch := false; vdefault := false |} ] |}.

Lemma enum_implicit_fixed :
  explicit_discs implicit_abc = false /\
  macro_discs (evariants implicit_abc) macro_accum0 = [0; 1; 2] /\
  enum_unpack implicit_abc (enum_pack implicit_abc (EV 0 0)) = Ok (EV 0 0) /\
  enum_unpack implicit_abc (enum_pack implicit_abc (EV 1 0)) = Ok (EV 1 0).
Proof. vm_compute. repeat split. Qed.
