(* Model of ethercrab-wire-derive for structs: [place] mirrors parse_struct.rs (running bit
   cursor, byte range, bit offset, the validation errors, total-width check); [pack]/[unpack]
   mirror generate_struct.rs (zero-filled buffer, OR of the masked shifted value into one byte,
   byte-aligned multi-byte fields delegated to the field type's own little-endian packing).
   Enums mirror parse_enum.rs / generate_enum.rs.  No proofs in this file. *)
From EC Require Import Base.Prelude Base.Bytes.
Local Open Scope N_scope.

(* How the generated code treats a field, decided by the macro from the type name and width:
   KU8    - type name `u8`
   KBool  - type name `bool`
   KByteT - any other type occupying one byte (enum or nested struct): goes through the type's
            own pack/unpack on a one-byte scratch buffer
   KMulti - byte-aligned field of more than one byte: delegated to the field type *)
Inductive fkind := KU8 | KBool | KByteT | KMulti.

Record field := {
  fk : fkind;
  fwidth : option N;   (* bits; None = no width attribute and no builtin default *)
  fpre : N;            (* pre_skip in bits (pre_skip_bytes already multiplied by 8) *)
  fpost : N;
  fskip : bool
}.

Record layout := { lwidth : N; lfields : list field }.

Record placed := { pk : fkind; pskip : bool; pstart : N; pbits : N }.

Inductive perr := ENoWidth | EMultiAlign | ECross | ETotal.

Definition byte_start (p : placed) : N := pstart p / 8.
Definition byte_end (p : placed) : N := (pstart p + pbits p + 7) / 8.
Definition bit_off (p : placed) : N := pstart p mod 8.

Fixpoint place_go (fs : list field) (cur : N) : res perr (list placed * N) :=
  match fs with
  | [] => Ok ([], cur)
  | f :: r =>
    if fskip f then
      let? '(ps, c) := place_go r cur in
      Ok ({| pk := fk f; pskip := true; pstart := cur; pbits := 0 |} :: ps, c)
    else
      let cur1 := cur + fpre f in
      match fwidth f with
      | None => Err ENoWidth
      | Some w =>
        let p := {| pk := fk f; pskip := false; pstart := cur1; pbits := w |} in
        let nbytes := byte_end p - byte_start p in
        if (1 <? nbytes) && ((0 <? bit_off p) || (0 <? w mod 8)) then Err EMultiAlign
        else if (w <? 8) && (1 <? nbytes) then Err ECross
        else
          let? '(ps, c) := place_go r (cur1 + w + fpost f) in
          Ok (p :: ps, c)
      end
  end.

Definition place (l : layout) : res perr (list placed) :=
  let? '(ps, c) := place_go (lfields l) 0 in
  if c =? lwidth l then Ok ps else Err ETotal.

(* What rustc additionally demands of the generated code (mask literal must fit a u8, the
   one-byte kinds really occupy one byte, delegated kinds more than one): *)
Definition kind_ok (p : placed) : bool :=
  pskip p ||
  match pk p with
  | KMulti => (8 <? pbits p)
  | _ => (1 <=? pbits p) && (pbits p <=? 8)
  end.

Definition size_bytes (l : layout) : nat := N.to_nat ((lwidth l + 7) / 8).

Definition fmask (bits off : N) : N := N.shiftl (2 ^ bits - 1) off.

Definition pack_field (buf : list N) (pv : placed * N) : list N :=
  let '(p, v) := pv in
  if pskip p then buf else
  let bs := N.to_nat (byte_start p) in
  match pk p with
  | KMulti => splice bs (le_bytes (N.to_nat (pbits p / 8)) v) buf
  | _ =>
    (* buf[bs] |= ((v as u8) << off) & mask *)
    upd bs (N.lor (nth bs buf 0)
                  (N.land (N.shiftl v (bit_off p) mod 256) (fmask (pbits p) (bit_off p)))) buf
  end.

Definition pack_placed (size : nat) (ps : list placed) (vs : list N) : list N :=
  fold_left pack_field (combine ps vs) (zeros size).

Definition pack (l : layout) (vs : list N) : res perr (list N) :=
  let? ps := place l in Ok (pack_placed (size_bytes l) ps vs).

Inductive werr := ReadBufferTooShort | WriteBufferTooShort | InvalidValue.

Definition unpack_field (buf : list N) (p : placed) : N :=
  if pskip p then 0 else
  let bs := N.to_nat (byte_start p) in
  match pk p with
  | KMulti => of_le (slice bs (N.to_nat (byte_end p)) buf)
  | KBool =>
    if 0 <? N.shiftr (N.land (nth bs buf 0) (fmask (pbits p) (bit_off p))) (bit_off p)
    then 1 else 0
  | _ => N.shiftr (N.land (nth bs buf 0) (fmask (pbits p) (bit_off p))) (bit_off p)
  end.

Definition unpack_placed (size : nat) (ps : list placed) (buf : list N) : res werr (list N) :=
  if (length buf <? size)%nat then Err ReadBufferTooShort
  else Ok (map (unpack_field (firstn size buf)) ps).

(* checked pack: EtherCrabWireWrite::pack_to_slice default method *)
Definition pack_to_slice (size : nat) (ps : list placed) (vs : list N) (dst_len : nat)
  : res werr (list N) :=
  if (dst_len <? size)%nat then Err WriteBufferTooShort else Ok (pack_placed size ps vs).

(* ---------- specification side ---------- *)

(* the number whose binary expansion has each field at its declared bit position *)
Fixpoint fields_val (ps : list placed) (vs : list N) : N :=
  match ps, vs with
  | p :: ps', v :: vs' =>
    (if pskip p then 0 else v * 2 ^ pstart p) + fields_val ps' vs'
  | _, _ => 0
  end.

Definition in_range (p : placed) (v : N) : bool :=
  if pskip p then true else
  match pk p with
  | KBool => v <? 2
  | _ => v <? 2 ^ pbits p
  end.

(* canonical value read back *)
Definition canon (p : placed) (v : N) : N := if pskip p then 0 else v.

Definition bits_at (x start bits : N) : N := (x / 2 ^ start) mod 2 ^ bits.

(* ---------- enums ---------- *)

Record variant := {
  vdisc : option Z;        (* explicit discriminant, None = implicit *)
  valts : list Z;          (* #[wire(alternatives = [..])] *)
  vcatch : bool;           (* #[wire(catch_all)] *)
  vdefault : bool          (* #[default] *)
}.

Record enum_def := { erepr_bytes : N; esigned : bool; evariants : list variant }.

(* parse_enum.rs: discriminant accumulation as the macro does it: an implicit discriminant is
   the previous variant's discriminant + 1, the accumulator starts at -1 and is not advanced over
   alternatives. *)
Fixpoint macro_discs (vs : list variant) (accum : Z) : list Z :=
  match vs with
  | [] => []
  | v :: r =>
    let d := match vdisc v with Some d => d | None => (accum + 1)%Z end in
    d :: macro_discs r d
  end.

Definition macro_accum0 : Z := (-1)%Z.

(* rustc: implicit discriminant = previous + 1, first = 0 *)
Fixpoint rustc_discs (vs : list variant) (next : Z) : list Z :=
  match vs with
  | [] => []
  | v :: r =>
    let d := match vdisc v with Some d => d | None => next end in
    d :: rustc_discs r (d + 1)%Z
  end.

(* match arms of the generated unpack, in order: (variant index, value) for every
   non-catch-all variant and its alternatives *)
Fixpoint arms_go (vs : list variant) (ds : list Z) (i : nat) : list (nat * Z) :=
  match vs, ds with
  | v :: r, d :: dr =>
    (if vcatch v then [] else (i, d) :: map (fun a => (i, a)) (valts v)) ++ arms_go r dr (S i)
  | _, _ => []
  end.

Definition arms (e : enum_def) : list (nat * Z) :=
  arms_go (evariants e) (macro_discs (evariants e) macro_accum0) 0.

Fixpoint find_idx {A} (f : A -> bool) (l : list A) (i : nat) : option nat :=
  match l with
  | [] => None
  | x :: r => if f x then Some i else find_idx f r (S i)
  end.

Definition catch_idx (e : enum_def) := find_idx vcatch (evariants e) 0.
Definition default_idx (e : enum_def) := find_idx vdefault (evariants e) 0.

(* a decoded enum value: variant index + payload (only meaningful for the catch-all) *)
Inductive eval := EV (i : nat) (payload : Z).

Definition repr_mod (e : enum_def) : Z := (2 ^ (8 * Z.of_N (erepr_bytes e)))%Z.

(* value of the repr type (as a mathematical integer) -> wire number *)
Definition to_wire (e : enum_def) (x : Z) : Z := (x mod repr_mod e)%Z.
(* wire number -> value of the repr type *)
Definition of_wire (e : enum_def) (w : Z) : Z :=
  if esigned e && (repr_mod e / 2 <=? w)%Z then (w - repr_mod e)%Z else w.

Fixpoint lookup_arm (arms : list (nat * Z)) (x : Z) : option nat :=
  match arms with
  | [] => None
  | (i, d) :: r => if (d =? x)%Z then Some i else lookup_arm r x
  end.

(* generated unpack: wire number (already the right number of bytes) -> variant *)
Definition enum_unpack (e : enum_def) (w : Z) : res werr eval :=
  let x := of_wire e w in
  match lookup_arm (arms e) x with
  | Some i => Ok (EV i 0)
  | None =>
    match catch_idx e with
    | Some c => Ok (EV c x)
    | None =>
      match default_idx e with
      | Some d => Ok (EV d 0)
      | None => Err InvalidValue
      end
    end
  end.

(* generated pack: with a catch-all the macro's own discriminants are used, otherwise the
   value is cast (`*self as repr`), i.e. rustc's discriminant *)
Definition enum_pack (e : enum_def) (v : eval) : Z :=
  let '(EV i payload) := v in
  match catch_idx e with
  | Some c =>
    if Nat.eqb i c then to_wire e payload
    else to_wire e (nth i (macro_discs (evariants e) macro_accum0) 0%Z)
  | None => to_wire e (nth i (rustc_discs (evariants e) 0) 0%Z)
  end.

(* every variant that has a discriminant of its own (i.e. every one but the catch-all) states it *)
Definition explicit_discs (e : enum_def) : bool :=
  forallb (fun v => vcatch v || match vdisc v with Some _ => true | None => false end) (evariants e).
