From EC Require Import Base.Prelude Base.Bytes Base.BytesProofs Wire.Layout Gen.SrcLayouts Coe.Sdo Coe.Run.
Local Open Scope N_scope.
Ltac Zify.zify_post_hook ::= Z.div_mod_to_equations.

(* ---------- "ends with a value or an error" ---------- *)
Definition finr {A} (r : res cerr A) : Prop := match r with Panic _ | Hang => False | _ => True end.
Definition finM {A} (m : M A) : Prop := forall d, finr (fst (m d)).

Lemma fin_ret {A} (x : A) : finM (ret x).  Proof. intros d. exact I. Qed.
Lemma fin_fail {A} e : finM (@fail A e).  Proof. intros d. exact I. Qed.
Lemma fin_lift {A} (r : res cerr A) : finr r -> finM (lift r).  Proof. intros H d. exact H. Qed.

Lemma fin_bind {A B} (m : M A) (f : A -> M B) : finM m -> (forall x, finM (f x)) -> finM (bind m f).
Proof.
  intros Hm Hf d. unfold bind. specialize (Hm d). destruct (m d) as [[x|e|s|] d']; cbn [fst] in *; auto. apply Hf.
Qed.

Lemma fin_ev e raw : finr (ev e raw).
Proof. unfold ev. destruct (enum_unpack e (Z.of_N raw)); exact I. Qed.

Lemma fin_send req : finM (m_send req).  Proof. intros d. exact I. Qed.
Lemma fin_counter : finM m_counter.  Proof. intros d. exact I. Qed.
Lemma fin_recv : finM m_recv.
Proof. intros d. unfold m_recv, recv. destruct (d_q d); exact I. Qed.

Lemma fin_rbind {A B} (r : res cerr A) (f : A -> res cerr B) : finr r -> (forall x, finr (f x)) -> finr (rbind r f).
Proof. destruct r; cbn; auto. Qed.

Lemma fin_triage k r : finr (triage k r).
Proof.
  unfold triage. destruct (length r <? 8)%nat; [exact I|].
  repeat (apply fin_rbind; [apply fin_ev|intros ?]).
  destruct (_ =? 1); [destruct (_ <? _)%nat; exact I|].
  destruct (length r <? 12)%nat; [exact I|].
  apply fin_rbind; [apply fin_ev|intros ?].
  destruct (_ =? 4).
  - destruct (_ <? _)%nat; [exact I|]. apply fin_rbind; [apply fin_ev|intros ?; exact I].
  - destruct (_ || _); [exact I|]. destruct (_ <? _)%nat; exact I.
Qed.

Lemma fin_exchange req k : finM (exchange req k).
Proof.
  unfold exchange. apply fin_bind; [apply fin_send|intros _].
  apply fin_bind; [apply fin_recv|intros r].
  apply fin_bind; [apply fin_lift, fin_triage|intros data]. apply fin_ret.
Qed.

Lemma fin_sdo_write idx sub ca data : finM (sdo_write idx sub ca data).
Proof.
  unfold sdo_write. destruct (4 <? length data)%nat; [apply fin_fail|].
  apply fin_bind; [apply fin_counter|intros c]. apply fin_bind; [apply fin_exchange|intros _]. apply fin_ret.
Qed.

Lemma fin_sdo_write_each idx vals : forall i, finM (sdo_write_each idx i vals).
Proof.
  induction vals as [|v r IH]; intros i; cbn [sdo_write_each]; [apply fin_ret|].
  apply fin_bind; [apply fin_sdo_write|intros _; apply IH].
Qed.

Lemma fin_sdo_write_array idx vals : finM (sdo_write_array idx vals).
Proof.
  unfold sdo_write_array. apply fin_bind; [apply fin_sdo_write|intros _].
  apply fin_bind; [apply fin_sdo_write_each|intros _]. apply fin_sdo_write.
Qed.

(* every segment that is not the last one adds at least one byte to a buffer of [cap] bytes *)
Lemma fin_segments fuel : forall toggle cap acc, (cap - length acc < fuel)%nat -> finM (segments fuel toggle cap acc).
Proof.
  induction fuel as [|f IH]; intros toggle cap acc F; [lia|]. cbn [segments].
  apply fin_bind; [apply fin_counter|intros c]. apply fin_bind; [apply fin_exchange|intros [r data]].
  destruct (le16 r 0 <? 3); [apply fin_fail|]. cbv zeta.
  set (chunk := if (N.to_nat (le16 r 0 - 3) =? 7)%nat then _ else _).
  destruct (length data <? chunk)%nat eqn:E1; [apply fin_fail|]. apply Nat.ltb_ge in E1.
  destruct (cap <? length acc + chunk)%nat eqn:E2; [apply fin_fail|]. apply Nat.ltb_ge in E2.
  destruct ((chunk =? 0)%nat && negb (N.odd (b r 8))) eqn:E3; [apply fin_fail|].
  destruct (N.odd (b r 8)); [apply fin_ret|]. cbn [negb] in E3. rewrite andb_true_r in E3. apply Nat.eqb_neq in E3.
  apply IH. rewrite app_length, firstn_length_le by lia. lia.
Qed.

Lemma fin_read_payload idx sub ca cap : finM (sdo_read_payload idx sub ca cap).
Proof.
  unfold sdo_read_payload. apply fin_bind; [apply fin_counter|intros c].
  apply fin_bind; [apply fin_exchange|intros [r data]].
  destruct (N.testbit (b r 8) 1).
  - cbv zeta. destruct (_ <? _)%nat; [apply fin_fail|apply fin_ret].
  - cbv zeta. destruct (length data <? 4)%nat; [apply fin_fail|].
    destruct (N.of_nat cap <? le32 data 0); [apply fin_fail|].
    destruct (le32 data 0 <=? _).
    + destruct (_ <? _)%nat; [apply fin_fail|apply fin_ret].
    + destruct (length (skipn 4 data) <? N.to_nat (le16 r 0 - 10))%nat eqn:E1; [apply fin_fail|].
      destruct (cap <? N.to_nat (le16 r 0 - 10))%nat eqn:E2; [apply fin_fail|].
      apply Nat.ltb_ge in E1, E2. apply fin_segments. rewrite firstn_length_le by lia. lia.
Qed.

Lemma fin_sdo_read idx sub ca cap : finM (sdo_read idx sub ca cap).
Proof.
  unfold sdo_read. apply fin_bind; [apply fin_read_payload|intros p]. destruct (_ <? _)%nat; [apply fin_fail|apply fin_ret].
Qed.

Lemma fin_read_each idx n : forall i acc, finM (read_each idx i n acc).
Proof.
  induction n as [|k IH]; intros i acc; cbn [read_each]; [apply fin_ret|].
  apply fin_bind; [apply fin_sdo_read|intros v; apply IH].
Qed.

Lemma fin_read_array idx max : finM (sdo_read_array idx max).
Proof.
  unfold sdo_read_array. apply fin_bind; [apply fin_sdo_read|intros c]. cbv zeta.
  destruct (_ <? _)%nat; [apply fin_fail|apply fin_read_each].
Qed.

(* SDO information: every round takes one reply out of a finite queue *)
Lemma fin_info_loop fuel : forall first acc d, (length (d_q d) < fuel)%nat -> finr (fst (info_loop fuel first acc d)).
Proof.
  induction fuel as [|f IH]; intros first acc d F; [lia|]. cbn [info_loop]. unfold bind at 1.
  unfold m_recv, recv. destruct (d_q d) as [|r q] eqn:Q; [exact I|]. cbn [fst].
  set (d' := {| d_mlen := d_mlen d; d_wlen := d_wlen d; d_pad := d_pad d; d_q := q; d_per := d_per d; d_reqs := d_reqs d; d_counter := d_counter d |}).
  set (rr := pad_to (d_mlen d) (d_pad d) r).
  assert (Q' : (length (d_q d') < f)%nat) by (subst d'; cbn [d_q length] in *; lia).
  destruct (length rr <? 12)%nat; [exact I|].
  repeat (unfold bind at 1; unfold lift at 1;
          match goal with |- context [ev ?e ?x] => pose proof (fin_ev e x) as FE; destruct (ev e x); cbn [fst]; try exact I; try contradiction; clear FE end).
  destruct (negb _); [exact I|]. destruct (le16 rr 0 <? 8); [exact I|]. cbv zeta.
  destruct (_ <? _)%nat; [exact I|]. destruct (131070 <? _); [exact I|].
  destruct (N.testbit (b rr 8) 7); [apply IH; exact Q'|exact I].
Qed.

Lemma fin_sdo_info lt : finM (sdo_info lt).
Proof.
  unfold sdo_info. intros d. unfold bind, m_counter, m_send. cbn [fst]. apply fin_info_loop. lia.
Qed.

(* Whatever the SubDevice puts into its response mailbox - for every reply sequence, mailbox size
   and entry point: a value or an error. *)
Theorem run_total d o : finr (fst (run d o)).
Proof.
  destruct o as [idx sub cap|idx sub data|idx vals|idx max|[|]]; cbn [run].
  - pose proof (fin_sdo_read idx sub false cap d) as H. destruct (sdo_read idx sub false cap d) as [[x|e|s|] d']; cbn [fst] in *; auto.
  - pose proof (fin_sdo_write idx sub false data d) as H. destruct (sdo_write idx sub false data d) as [[x|e|s|] d']; cbn [fst] in *; auto.
  - pose proof (fin_sdo_write_array idx vals d) as H. destruct (sdo_write_array idx vals d) as [[x|e|s|] d']; cbn [fst] in *; auto.
  - pose proof (fin_read_array idx max d) as H. destruct (sdo_read_array idx max d) as [[x|e|s|] d']; cbn [fst] in *; auto.
  - pose proof (fin_sdo_info 1 d) as H. destruct (sdo_info 1 d) as [[x|e|s|] d']; cbn [fst] in *; auto.
  - pose proof (fin_sdo_info 0 d) as H. destruct (sdo_info 0 d) as [[x|e|s|] d']; cbn [fst] in *; auto.
    destruct (_ <? _)%nat; exact I.
Qed.

(* ... and a segmented upload never accumulates more than the destination buffer holds *)
Lemma segments_bound fuel : forall toggle cap acc d out d', (length acc <= cap)%nat ->
  segments fuel toggle cap acc d = (Ok out, d') -> (length out <= cap)%nat.
Proof.
  induction fuel as [|f IH]; intros toggle cap acc d out d' L H; cbn [segments] in H; [discriminate|].
  unfold bind at 1, m_counter in H. unfold bind at 1 in H.
  destruct (exchange (req_segment (d_counter d) toggle) RSegment d) as [[[r data]|e|s|] d1]; try discriminate.
  destruct (le16 r 0 <? 3); [discriminate|]. cbv zeta in H.
  set (chunk := if (N.to_nat (le16 r 0 - 3) =? 7)%nat then _ else _) in H.
  destruct (length data <? chunk)%nat eqn:E1; [discriminate|]. apply Nat.ltb_ge in E1.
  destruct (cap <? length acc + chunk)%nat eqn:E2; [discriminate|]. apply Nat.ltb_ge in E2.
  destruct ((chunk =? 0)%nat && negb (N.odd (b r 8))); [discriminate|].
  assert (LA : (length (acc ++ firstn chunk data) <= cap)%nat) by (rewrite app_length, firstn_length_le by lia; lia).
  destruct (N.odd (b r 8)).
  - inversion H; subst. exact LA.
  - eapply IH; [exact LA|exact H].
Qed.

(* ====================== C15: against a conforming server ====================== *)
From EC Require Import Coe.Server.

Lemma ev_priority : ev enum_Priority 0 = Ok 0.  Proof. vm_compute. reflexivity. Qed.
Lemma ev_type3 : ev enum_MailboxType 3 = Ok 3.  Proof. vm_compute. reflexivity. Qed.
Lemma ev_service k : 1 <= k <= 3 -> ev enum_CoeService k = Ok k.
Proof. intros H. assert (k = 1 \/ k = 2 \/ k = 3) as [ -> | [ -> | -> ] ] by lia; vm_compute; reflexivity. Qed.
Lemma ev_command k : k <= 4 -> ev enum_CoeCommand k = Ok k.
Proof. intros H. assert (k = 0 \/ k = 1 \/ k = 2 \/ k = 3 \/ k = 4) as [ -> | [ -> | [ -> | [ -> | -> ] ] ] ] by lia; vm_compute; reflexivity. Qed.

Lemma drain_short n q : (length q <= n)%nat -> drain n q = [].
Proof. revert q. induction n as [|k IH]; intros [|x r] H; cbn in *; auto; try lia. apply IH. lia. Qed.

(* what a padded reply looks like *)
Lemma firstn_repeat_le {A} (x : A) : forall a k, (k <= a)%nat -> firstn k (repeat x a) = repeat x k.
Proof. induction a as [|a IH]; intros [|k] H; cbn; auto; try lia. f_equal. apply IH. lia. Qed.

Lemma pad_to_eq n x l : (length l <= n)%nat -> pad_to n x l = l ++ repeat x (n - length l).
Proof.
  intros H. unfold pad_to. rewrite firstn_app, firstn_all2 by exact H. f_equal. apply firstn_repeat_le. lia.
Qed.

Lemma b_pad n x l i : (length l <= n)%nat -> (i < length l)%nat -> b (pad_to n x l) i = b l i.
Proof. intros Hn Hl. rewrite pad_to_eq by exact Hn. unfold b. rewrite app_nth1 by exact Hl. reflexivity. Qed.

Lemma skipn_pad n x l k : (length l <= n)%nat -> (k <= length l)%nat ->
  skipn k (pad_to n x l) = skipn k l ++ repeat x (n - length l).
Proof.
  intros Ln Hk. rewrite pad_to_eq by exact Ln. rewrite skipn_app. replace (k - length l)%nat with 0%nat by lia. reflexivity.
Qed.

Lemma pad_to_length n x l : length (pad_to n x l) = n.
Proof. unfold pad_to. rewrite firstn_length_le; [reflexivity|]. rewrite app_length, repeat_length. lia. Qed.

(* one exchange with a device whose next reply is [rp] *)
Definition after (d : dev) (req : list N) (per' : list (list (list N))) : dev :=
  {| d_mlen := d_mlen d; d_wlen := d_wlen d; d_pad := d_pad d; d_q := []; d_per := per';
     d_reqs := d_reqs d ++ [pad_to (Nat.max (d_wlen d) (length req)) 0 req]; d_counter := next_counter (d_counter d) |}.

Lemma exchange_reply d req k rp per' : (length (d_q d) <= 10)%nat -> d_per d = [rp] :: per' ->
  exchange req k d =
  match triage k (pad_to (d_mlen d) (d_pad d) rp) with
  | Ok data => (Ok (pad_to (d_mlen d) (d_pad d) rp, data), after d req per')
  | Err e => (Err e, after d req per') | Panic s => (Panic s, after d req per') | Hang => (Hang, after d req per')
  end.
Proof.
  intros Q P. unfold exchange, bind, m_send, m_recv, send, recv, lift, ret. cbn [fst snd d_q d_mlen d_wlen d_pad d_per d_reqs d_counter].
  rewrite P, (drain_short 10 _ Q). cbn [hd tl app]. unfold after.
  destruct (triage k (pad_to (d_mlen d) (d_pad d) rp)); reflexivity.
Qed.

(* a reply with the headers of an SDO response to our request is let through *)
Lemma triage_pass k r cmd : (16 <= length r)%nat -> b r 4 / 64 = 0 -> b r 5 mod 16 = 3 -> b r 7 / 16 = 3 ->
  b r 8 / 32 = cmd -> cmd <= 3 -> validate k (le16 r 9) (b r 11) = true ->
  triage k r = Ok (skipn (plen k) r).
Proof.
  intros L H4 H5 H7 H8 C V. unfold triage.
  replace (length r <? 8)%nat with false by (symmetry; apply Nat.ltb_ge; lia).
  replace (length r <? 12)%nat with false by (symmetry; apply Nat.ltb_ge; lia).
  replace (length r <? plen k)%nat with false by (symmetry; apply Nat.ltb_ge; destruct k; cbn [plen]; lia).
  rewrite H4, H5, H7, H8, ev_priority, ev_type3, (ev_service 3) by lia.
  cbn [rbind]. replace (3 =? 1) with false by reflexivity. rewrite (ev_command cmd) by lia. cbn [rbind].
  replace (cmd =? 4) with false by (symmetry; apply N.eqb_neq; lia). rewrite V. reflexivity.
Qed.

(* the mailbox header bytes of a server reply *)
Lemma hdr_facts len c rest : c <= 7 ->
  let r := mbx_hdr len c ++ rest in b r 4 / 64 = 0 /\ b r 5 mod 16 = 3.
Proof. intros C r. subst r. unfold b, mbx_hdr. cbn [app nth]. split; [reflexivity|lia]. Qed.

(* ---------- the mailbox counter ---------- *)
Theorem counter_cycle c : 1 <= c <= 7 ->
  1 <= next_counter c <= 7 /\ Nat.iter 7 next_counter c = c.
Proof.
  intros H. assert (c = 1 \/ c = 2 \/ c = 3 \/ c = 4 \/ c = 5 \/ c = 6 \/ c = 7) as [ -> | [ -> | [ -> | [ -> | [ -> | [ -> | -> ] ] ] ] ] ] by lia;
    (split; [vm_compute; split; discriminate|reflexivity]).
Qed.

(* every exchange carries the current counter in its request and advances it *)
Lemma exchange_counter req k d : d_counter (snd (exchange req k d)) = next_counter (d_counter d).
Proof.
  unfold exchange, bind, m_send, m_recv, send, recv, lift, ret. cbn [fst snd d_q d_mlen d_wlen d_pad d_per d_reqs d_counter].
  destruct (drain 10 (d_q d) ++ hd [] (d_per d)) as [|r q]; cbn [snd d_counter]; [reflexivity|].
  destruct (triage k _); reflexivity.
Qed.

Lemma le16_split x : x < 65536 -> x mod 256 + 256 * (x / 256) = x.
Proof. intros H. lia. Qed.

(* ---------- expedited upload ---------- *)
Theorem read_expedited d idx sub ca cap c' data per' :
  (length (d_q d) <= 10)%nat -> d_per d = [rep_expedited c' idx sub data] :: per' ->
  c' <= 7 -> idx < 65536 -> sub < 256 -> (1 <= length data <= 4)%nat -> (16 <= d_mlen d)%nat ->
  sdo_read_payload idx sub ca cap d = (Ok data, after d (req_upload (d_counter d) idx sub ca) per').
Proof.
  intros Q P C I S L M. unfold sdo_read_payload. unfold bind at 1, m_counter. unfold bind at 1.
  rewrite (exchange_reply d _ _ _ per' Q P).
  set (rp := rep_expedited c' idx sub data).
  assert (LR : length rp = 16%nat).
  { subst rp. unfold rep_expedited, mbx_hdr. rewrite !app_length, pad_to_length. reflexivity. }
  assert (B : forall i, (i < 16)%nat -> b (pad_to (d_mlen d) (d_pad d) rp) i = b rp i).
  { intros i Hi. apply b_pad; lia. }
  assert (T : triage (RUpload idx sub) (pad_to (d_mlen d) (d_pad d) rp) = Ok (skipn 12 (pad_to (d_mlen d) (d_pad d) rp))).
  { change 12%nat with (plen (RUpload idx sub)). apply (triage_pass _ _ 2); [rewrite pad_to_length; lia| | | | | |]; rewrite ?B by lia; unfold le16; rewrite ?B by lia; subst rp; unfold rep_expedited, mbx_hdr, b; cbn [app nth].
    - reflexivity.
    - lia.
    - reflexivity.
    - destruct data as [|d0 [|d1 [|d2 [|d3 [|]]]]]; cbn [length] in L; try lia; reflexivity.
    - lia.
    - cbn [validate]. rewrite (le16_split idx I), !N.eqb_refl. reflexivity. }
  rewrite T. cbn [fst snd]. rewrite skipn_pad by lia.
  rewrite B by lia. subst rp. unfold rep_expedited, mbx_hdr, b. cbn [app nth skipn].
  destruct data as [|d0 [|d1 [|d2 [|d3 [|]]]]]; cbn [length] in L; try lia; reflexivity.
Qed.

(* ---------- normal upload: the whole object in the initiate response ---------- *)
Theorem read_normal d idx sub ca cap c' data per' :
  (length (d_q d) <= 10)%nat -> d_per d = [rep_normal c' idx sub (N.of_nat (length data)) data] :: per' ->
  c' <= 7 -> idx < 65536 -> sub < 256 -> (length data + 16 <= d_mlen d)%nat -> N.of_nat (d_mlen d) < 65536 ->
  (length data <= cap)%nat ->
  sdo_read_payload idx sub ca cap d = (Ok data, after d (req_upload (d_counter d) idx sub ca) per').
Proof.
  intros Q P C I S M MB L. unfold sdo_read_payload. unfold bind at 1, m_counter. unfold bind at 1.
  rewrite (exchange_reply d _ _ _ per' Q P).
  set (n := length data) in *.
  set (rp := rep_normal c' idx sub (N.of_nat n) data).
  assert (LR : length rp = (16 + n)%nat).
  { subst rp. unfold rep_normal, mbx_hdr. rewrite !app_length, le_bytes_length. cbn [length]. lia. }
  assert (B : forall i, (i < 16)%nat -> b (pad_to (d_mlen d) (d_pad d) rp) i = b rp i).
  { intros i Hi. apply b_pad; lia. }
  assert (NB : N.of_nat n < 65536) by lia.
  assert (T : triage (RUpload idx sub) (pad_to (d_mlen d) (d_pad d) rp) = Ok (skipn 12 (pad_to (d_mlen d) (d_pad d) rp))).
  { change 12%nat with (plen (RUpload idx sub)). apply (triage_pass _ _ 2); [rewrite pad_to_length; lia| | | | | |]; rewrite ?B by lia; unfold le16; rewrite ?B by lia; subst rp; unfold rep_normal, mbx_hdr, b; cbn [app nth].
    - reflexivity.
    - lia.
    - reflexivity.
    - reflexivity.
    - lia.
    - cbn [validate]. rewrite (le16_split idx I), !N.eqb_refl. reflexivity. }
  rewrite T. cbn [fst snd]. rewrite skipn_pad by lia.
  rewrite B by lia. unfold le16. rewrite !B by lia.
  assert (R8 : b rp 8 = 65) by (subst rp; reflexivity). rewrite R8. replace (N.testbit 65 1) with false by reflexivity. cbv zeta.
  assert (SK : skipn 12 rp = le_bytes 4 (N.of_nat n) ++ data).
  { subst rp. unfold rep_normal, mbx_hdr. cbn [app skipn]. reflexivity. }
  rewrite SK.
  assert (L0 : b rp 0 + 256 * b rp 1 = 10 + N.of_nat n).
  { subst rp. unfold rep_normal, mbx_hdr, b. cbn [app nth]. lia. }
  rewrite L0. replace (10 + N.of_nat n - 10) with (N.of_nat n) by lia. rewrite Nat2N.id.
  replace (length ((le_bytes 4 (N.of_nat n) ++ data) ++ repeat (d_pad d) (d_mlen d - length rp)) <? 4)%nat with false
    by (symmetry; apply Nat.ltb_ge; rewrite !app_length, le_bytes_length; lia).
  assert (C32 : le32 ((le_bytes 4 (N.of_nat n) ++ data) ++ repeat (d_pad d) (d_mlen d - length rp)) 0 = N.of_nat n).
  { unfold le32, le16, b. cbn [le_bytes app nth]. lia. }
  rewrite C32. replace (N.of_nat cap <? N.of_nat n) with false by (symmetry; apply N.ltb_ge; lia).
  rewrite N.leb_refl.
  assert (SK4 : skipn 4 ((le_bytes 4 (N.of_nat n) ++ data) ++ repeat (d_pad d) (d_mlen d - length rp)) = data ++ repeat (d_pad d) (d_mlen d - length rp)).
  { cbn [le_bytes app skipn]. reflexivity. }
  rewrite SK4. replace (length (data ++ repeat (d_pad d) (d_mlen d - length rp)) <? n)%nat with false
    by (symmetry; apply Nat.ltb_ge; rewrite app_length; fold n; lia).
  rewrite firstn_app, firstn_all2 by (fold n; lia). fold n. rewrite Nat.sub_diag. cbn [firstn]. rewrite app_nil_r. reflexivity.
Qed.

(* ---------- what the error replies turn into (for every request kind) ---------- *)
Lemma le32_bytes r i x : x < 4294967296 ->
  b r i = x mod 256 -> b r (S i) = x / 256 mod 256 -> b r (S (S i)) = x / 65536 mod 256 -> b r (S (S (S i))) = x / 16777216 mod 256 ->
  le32 r i = x.
Proof. intros X B0 B1 B2 B3. unfold le32, le16. rewrite B0, B1, B2, B3. lia. Qed.

Theorem exchange_abort d req k c' idx' sub' code code' per' :
  (length (d_q d) <= 10)%nat -> d_per d = [rep_abort c' idx' sub' code] :: per' ->
  c' <= 7 -> idx' < 65536 -> sub' < 256 -> code < 4294967296 -> (16 <= d_mlen d)%nat ->
  ev enum_CoeAbortCode code = Ok code' ->
  exchange req k d = (Err (CAborted code' idx' sub'), after d req per').
Proof.
  intros Q P C I S CB M EV. rewrite (exchange_reply d _ _ _ per' Q P).
  set (rp := rep_abort c' idx' sub' code).
  assert (LR : length rp = 16%nat) by (subst rp; unfold rep_abort, mbx_hdr; rewrite !app_length, le_bytes_length; reflexivity).
  assert (B : forall i, (i < 16)%nat -> b (pad_to (d_mlen d) (d_pad d) rp) i = b rp i) by (intros i Hi; apply b_pad; lia).
  unfold triage. rewrite !B by lia. rewrite pad_to_length.
  replace (d_mlen d <? 8)%nat with false by (symmetry; apply Nat.ltb_ge; lia).
  try replace (d_mlen d <? 12)%nat with false by (symmetry; apply Nat.ltb_ge; lia).
  assert (E4 : b rp 4 / 64 = 0) by (subst rp; reflexivity).
  assert (E5 : b rp 5 mod 16 = 3) by (subst rp; unfold rep_abort, mbx_hdr, b; cbn [app nth]; lia).
  assert (E7 : b rp 7 / 16 = 2) by (subst rp; reflexivity).
  assert (E8 : b rp 8 / 32 = 4) by (subst rp; reflexivity).
  rewrite E4, E5, E7, E8, ev_priority, ev_type3, (ev_service 2), (ev_command 4) by lia. cbn [rbind].
  replace (2 =? 1) with false by reflexivity. replace (4 =? 4) with true by reflexivity.
  replace (d_mlen d <? 16)%nat with false by (symmetry; apply Nat.ltb_ge; exact M).
  assert (E32 : le32 (pad_to (d_mlen d) (d_pad d) rp) 12 = code).
  { apply le32_bytes; [exact CB| | | |]; rewrite B by lia; subst rp; unfold rep_abort, mbx_hdr, b; cbn [app nth le_bytes]; reflexivity || lia. }
  assert (E9 : le16 (pad_to (d_mlen d) (d_pad d) rp) 9 = idx').
  { unfold le16. rewrite !B by lia. subst rp. unfold rep_abort, mbx_hdr, b. cbn [app nth]. apply le16_split. exact I. }
  assert (E11 : b rp 11 = sub') by (subst rp; reflexivity).
  rewrite E32, EV, E9, E11. reflexivity.
Qed.

Theorem exchange_emergency d req k c' code reg extra per' :
  (length (d_q d) <= 10)%nat -> d_per d = [rep_emergency c' code reg extra] :: per' ->
  c' <= 7 -> code < 65536 -> reg < 256 -> (16 <= d_mlen d)%nat ->
  exchange req k d = (Err (CEmergency code reg), after d req per').
Proof.
  intros Q P C CB RB M. rewrite (exchange_reply d _ _ _ per' Q P).
  set (rp := rep_emergency c' code reg extra).
  assert (LR : length rp = 16%nat) by (subst rp; unfold rep_emergency, mbx_hdr; rewrite !app_length, le_bytes_length, pad_to_length; reflexivity).
  assert (B : forall i, (i < 16)%nat -> b (pad_to (d_mlen d) (d_pad d) rp) i = b rp i) by (intros i Hi; apply b_pad; lia).
  unfold triage. rewrite !B by lia. rewrite pad_to_length.
  replace (d_mlen d <? 8)%nat with false by (symmetry; apply Nat.ltb_ge; lia).
  try replace (d_mlen d <? 12)%nat with false by (symmetry; apply Nat.ltb_ge; lia).
  assert (E4 : b rp 4 / 64 = 0) by (subst rp; reflexivity).
  assert (E5 : b rp 5 mod 16 = 3) by (subst rp; unfold rep_emergency, mbx_hdr, b; cbn [app nth]; lia).
  assert (E7 : b rp 7 / 16 = 1) by (subst rp; reflexivity).
  rewrite E4, E5, E7, ev_priority, ev_type3, (ev_service 1) by lia. cbn [rbind].
  replace (1 =? 1) with true by reflexivity.
  replace (d_mlen d <? 16)%nat with false by (symmetry; apply Nat.ltb_ge; exact M).
  assert (E8 : le16 (pad_to (d_mlen d) (d_pad d) rp) 8 = code).
  { unfold le16. rewrite !B by lia. subst rp. unfold rep_emergency, mbx_hdr, b. cbn [app nth le_bytes]. lia. }
  assert (E10 : b rp 10 = reg) by (subst rp; reflexivity).
  rewrite E8, E10. reflexivity.
Qed.

(* a well-formed response that names another object *)
Theorem exchange_other_object d idx sub c' idx' sub' data per' req :
  (length (d_q d) <= 10)%nat -> d_per d = [rep_expedited c' idx' sub' data] :: per' ->
  c' <= 7 -> idx' < 65536 -> sub' < 256 -> (length data <= 4)%nat -> (16 <= d_mlen d)%nat ->
  (idx', sub') <> (idx, sub) ->
  exchange req (RUpload idx sub) d = (Err (CInvalidResponse idx' sub'), after d req per').
Proof.
  intros Q P C I S L M NE. rewrite (exchange_reply d _ _ _ per' Q P).
  set (rp := rep_expedited c' idx' sub' data).
  assert (LR : length rp = 16%nat) by (subst rp; unfold rep_expedited, mbx_hdr; rewrite !app_length, pad_to_length; reflexivity).
  assert (B : forall i, (i < 16)%nat -> b (pad_to (d_mlen d) (d_pad d) rp) i = b rp i) by (intros i Hi; apply b_pad; lia).
  unfold triage. rewrite !B by lia. rewrite !pad_to_length.
  replace (d_mlen d <? 8)%nat with false by (symmetry; apply Nat.ltb_ge; lia).
  replace (d_mlen d <? 12)%nat with false by (symmetry; apply Nat.ltb_ge; lia).
  assert (E4 : b rp 4 / 64 = 0) by (subst rp; reflexivity).
  assert (E5 : b rp 5 mod 16 = 3) by (subst rp; unfold rep_expedited, mbx_hdr, b; cbn [app nth]; lia).
  assert (E7 : b rp 7 / 16 = 3) by (subst rp; reflexivity).
  assert (E8 : b rp 8 / 32 = 2).
  { subst rp. unfold rep_expedited, mbx_hdr, b. cbn [app nth]. destruct data as [|d0 [|d1 [|d2 [|d3 [|]]]]]; cbn [length] in L; try lia; reflexivity. }
  rewrite E4, E5, E7, E8, ev_priority, ev_type3, (ev_service 3), (ev_command 2) by lia. cbn [rbind].
  replace (3 =? 1) with false by reflexivity. replace (2 =? 4) with false by reflexivity.
  assert (E9 : le16 (pad_to (d_mlen d) (d_pad d) rp) 9 = idx').
  { unfold le16. rewrite !B by lia. subst rp. unfold rep_expedited, mbx_hdr, b. cbn [app nth]. apply le16_split. exact I. }
  assert (E11 : b rp 11 = sub') by (subst rp; reflexivity).
  rewrite E9, E11. cbn [validate negb]. replace (3 =? 3) with true by reflexivity. cbn [negb orb].
  replace ((idx' =? idx) && (sub' =? sub)) with false; [reflexivity|].
  symmetry. apply andb_false_iff. destruct (N.eqb_spec idx' idx) as [->|]; [|left; reflexivity].
  destruct (N.eqb_spec sub' sub) as [->|]; [exfalso; apply NE; reflexivity|right; reflexivity].
Qed.

(* ---------- segmented upload ---------- *)
Lemma segment_step d c' tg last ch per' toggle cap acc :
  d_q d = [] -> d_per d = [rep_segment c' tg last ch] :: per' ->
  c' <= 7 -> (1 <= length ch)%nat -> (length ch + 16 <= d_mlen d)%nat -> N.of_nat (d_mlen d) < 65536 ->
  (length acc + length ch <= cap)%nat ->
  forall fuel,
  segments (S fuel) toggle cap acc d =
  (if last then ret (acc ++ ch) else segments fuel (negb toggle) cap (acc ++ ch))
    (after d (req_segment (d_counter d) toggle) per').
Proof.
  intros Q P C L1 M MB CAP fuel. cbn [segments]. unfold bind at 1, m_counter. unfold bind at 1.
  rewrite (exchange_reply d _ _ _ per' ltac:(rewrite Q; cbn; lia) P).
  set (n := length ch) in *.
  set (rp := rep_segment c' tg last ch).
  assert (LR : length rp = (9 + (if (n <? 7)%nat then 7 else n))%nat).
  { subst rp. unfold rep_segment, mbx_hdr. fold n. rewrite !app_length. cbn [length].
    destruct (n <? 7)%nat; [rewrite pad_to_length|fold n]; lia. }
  assert (LRM : (length rp <= d_mlen d)%nat) by (rewrite LR; destruct (n <? 7)%nat; lia).
  assert (B : forall i, (i < 9)%nat -> b (pad_to (d_mlen d) (d_pad d) rp) i = b rp i).
  { intros i Hi. apply b_pad; [exact LRM|rewrite LR; lia]. }
  assert (T : triage RSegment (pad_to (d_mlen d) (d_pad d) rp) = Ok (skipn (plen RSegment) (pad_to (d_mlen d) (d_pad d) rp))).
  { apply (triage_pass _ _ 0); [rewrite pad_to_length; lia| | | | | |]; rewrite ?B by lia; subst rp; unfold rep_segment, mbx_hdr, b; cbn [app nth]; fold n.
    - reflexivity.
    - lia.
    - reflexivity.
    - destruct last, tg, (n <? 7)%nat eqn:E; try (apply Nat.ltb_lt in E); lia.
    - lia.
    - reflexivity. }
  rewrite T. cbn [fst snd plen]. unfold le16. rewrite !B by lia.
  assert (L0 : b rp 0 + 256 * b rp 1 = if (n <? 7)%nat then 10 else 3 + N.of_nat n).
  { subst rp. unfold rep_segment, mbx_hdr, b. cbn [app nth]. fold n. destruct (n <? 7)%nat; lia. }
  assert (R8 : b rp 8 = (if last then 1 else 0) + 2 * (if (n <? 7)%nat then 7 - N.of_nat n else 0) + (if tg then 16 else 0)).
  { subst rp. unfold rep_segment, mbx_hdr, b. cbn [app nth]. fold n. reflexivity. }
  rewrite L0, R8.
  assert (SK : skipn 9 (pad_to (d_mlen d) (d_pad d) rp) = (if (n <? 7)%nat then pad_to 7 0 ch else ch) ++ repeat (d_pad d) (d_mlen d - length rp)).
  { rewrite skipn_pad by (try exact LRM; rewrite LR; lia). subst rp. unfold rep_segment, mbx_hdr. cbn [app skipn]. fold n. reflexivity. }
  rewrite SK.
  replace ((if (n <? 7)%nat then 10 else 3 + N.of_nat n) <? 3) with false by (symmetry; apply N.ltb_ge; destruct (n <? 7)%nat; lia).
  cbv zeta.
  assert (CH : (if (N.to_nat ((if (n <? 7)%nat then 10 else 3 + N.of_nat n) - 3) =? 7)%nat
                then (N.to_nat ((if (n <? 7)%nat then 10 else 3 + N.of_nat n) - 3) -
                      N.to_nat (((if last then 1 else 0) + 2 * (if (n <? 7)%nat then 7 - N.of_nat n else 0) + (if tg then 16 else 0)) / 2 mod 8))%nat
                else N.to_nat ((if (n <? 7)%nat then 10 else 3 + N.of_nat n) - 3)) = n).
  { destruct (n <? 7)%nat eqn:E7.
    - apply Nat.ltb_lt in E7. replace (N.to_nat (10 - 3)) with 7%nat by reflexivity. cbn [Nat.eqb].
      destruct last, tg; lia.
    - apply Nat.ltb_ge in E7. replace (N.to_nat (3 + N.of_nat n - 3)) with n by lia.
      destruct (n =? 7)%nat eqn:E; [apply Nat.eqb_eq in E; destruct last, tg; lia|reflexivity]. }
  rewrite CH.
  assert (OD : N.odd ((if last then 1 else 0) + 2 * (if (n <? 7)%nat then 7 - N.of_nat n else 0) + (if tg then 16 else 0)) = last).
  { destruct last, tg; rewrite ?N.add_0_l, ?N.add_0_r;
      [replace (1 + 2 * _ + 16) with (1 + 2 * ((if (n <? 7)%nat then 7 - N.of_nat n else 0) + 8)) by lia
      |
      |replace (2 * _ + 16) with (2 * ((if (n <? 7)%nat then 7 - N.of_nat n else 0) + 8)) by lia
      |]; rewrite ?N.odd_add_mul_2, ?N.odd_mul, ?N.odd_2; cbn; try reflexivity.
    all: try (rewrite N.add_comm, N.odd_add_mul_2; reflexivity). }
  rewrite OD.
  assert (FD : firstn n ((if (n <? 7)%nat then pad_to 7 0 ch else ch) ++ repeat (d_pad d) (d_mlen d - length rp)) = ch).
  { destruct (n <? 7)%nat eqn:E7.
    - apply Nat.ltb_lt in E7. rewrite pad_to_eq by (fold n; lia). rewrite <- app_assoc, firstn_app. fold n.
      rewrite firstn_all2 by (fold n; lia). rewrite Nat.sub_diag. cbn [firstn]. apply app_nil_r.
    - rewrite firstn_app. fold n. rewrite firstn_all2 by (fold n; lia). rewrite Nat.sub_diag. cbn [firstn]. apply app_nil_r. }
  rewrite FD.
  replace (length ((if (n <? 7)%nat then pad_to 7 0 ch else ch) ++ repeat (d_pad d) (d_mlen d - length rp)) <? n)%nat with false.
  2:{ symmetry. apply Nat.ltb_ge. rewrite app_length. destruct (n <? 7)%nat eqn:E7; [rewrite pad_to_length; apply Nat.ltb_lt in E7|fold n]; lia. }
  replace (cap <? length acc + n)%nat with false by (symmetry; apply Nat.ltb_ge; lia).
  replace (n =? 0)%nat with false by (symmetry; apply Nat.eqb_neq; lia). cbn [andb].
  destruct last; reflexivity.
Qed.

Definition chunk_ok (mlen : nat) (ch : list N) : Prop := (1 <= length ch)%nat /\ (length ch + 16 <= mlen)%nat.

Lemma after_fields d req per' : d_q (after d req per') = [] /\ d_per (after d req per') = per' /\ d_mlen (after d req per') = d_mlen d.
Proof. repeat split. Qed.

Lemma seg_replies_cons c cs t ch ch2 r :
  seg_replies (c :: cs) t (ch :: ch2 :: r) = [rep_segment c t false ch] :: seg_replies cs (negb t) (ch2 :: r).
Proof. reflexivity. Qed.

Theorem segments_assemble : forall chunks cs toggle cap acc d per' fuel,
  chunks <> [] -> Forall (chunk_ok (d_mlen d)) chunks -> (forall c, In c cs -> c <= 7) -> (length chunks <= length cs)%nat ->
  d_q d = [] -> d_per d = seg_replies cs toggle chunks ++ per' -> N.of_nat (d_mlen d) < 65536 ->
  (length acc + length (concat chunks) <= cap)%nat -> (length chunks <= fuel)%nat ->
  exists d', segments fuel toggle cap acc d = (Ok (acc ++ concat chunks), d') /\
             d_per d' = per' /\ d_q d' = [] /\ d_mlen d' = d_mlen d.
Proof.
  induction chunks as [|ch rest IH]; intros cs toggle cap acc d per' fuel NE OK CS LC Q P MB CAP F; [congruence|].
  inversion OK as [|? ? [O1 O2] OKr]; subst.
  destruct cs as [|c0 cs']; [cbn in LC; lia|].
  assert (C0 : c0 <= 7) by (apply CS; left; reflexivity).
  destruct fuel as [|fuel]; [cbn in F; lia|].
  cbn [concat] in CAP. rewrite app_length in CAP.
  destruct rest as [|ch2 rest'].
  - (* the last segment *)
    cbn [seg_replies hd app] in P.
    rewrite (segment_step d c0 toggle true ch per' toggle cap acc Q P C0 O1 O2 MB ltac:(lia) fuel).
    cbn [concat]. rewrite app_nil_r. eexists. split; [reflexivity|]. repeat split.
  - rewrite seg_replies_cons in P. cbn [app] in P.
    rewrite (segment_step d c0 toggle false ch _ toggle cap acc Q P C0 O1 O2 MB ltac:(lia) fuel).
    destruct (after_fields d (req_segment (d_counter d) toggle) (seg_replies cs' (negb toggle) (ch2 :: rest') ++ per')) as (A1 & A2 & A3).
    destruct (IH cs' (negb toggle) cap (acc ++ ch) (after d (req_segment (d_counter d) toggle) (seg_replies cs' (negb toggle) (ch2 :: rest') ++ per')) per' fuel)
      as (d' & S1 & S2 & S3 & S4).
    + discriminate.
    + exact OKr.
    + intros c Hc. apply CS. right. exact Hc.
    + cbn [length] in *. lia.
    + reflexivity.
    + reflexivity.
    + exact MB.
    + rewrite app_length. cbn [concat] in *. lia.
    + cbn [length] in *. lia.
    + exists d'. cbn [concat]. rewrite S1, <- app_assoc. repeat split; try assumption.
Qed.

(* the initiate response of a normal / segmented upload *)
Lemma initiate_normal d idx sub ca cap c' total first per' :
  (length (d_q d) <= 10)%nat -> d_per d = [rep_normal c' idx sub total first] :: per' ->
  c' <= 7 -> idx < 65536 -> sub < 256 -> total < 4294967296 ->
  (length first + 16 <= d_mlen d)%nat -> N.of_nat (d_mlen d) < 65536 ->
  N.of_nat (length first) < total -> total <= N.of_nat cap ->
  sdo_read_payload idx sub ca cap d =
  segments (S cap) false cap first (after d (req_upload (d_counter d) idx sub ca) per').
Proof.
  intros Q P C I S TB M MB SEG CAP. unfold sdo_read_payload. unfold bind at 1, m_counter. unfold bind at 1.
  rewrite (exchange_reply d _ _ _ per' Q P).
  set (n := length first) in *.
  set (rp := rep_normal c' idx sub total first).
  assert (LR : length rp = (16 + n)%nat).
  { subst rp. unfold rep_normal, mbx_hdr. rewrite !app_length, le_bytes_length. cbn [length]. lia. }
  assert (B : forall i, (i < 16)%nat -> b (pad_to (d_mlen d) (d_pad d) rp) i = b rp i).
  { intros i Hi. apply b_pad; lia. }
  assert (T : triage (RUpload idx sub) (pad_to (d_mlen d) (d_pad d) rp) = Ok (skipn (plen (RUpload idx sub)) (pad_to (d_mlen d) (d_pad d) rp))).
  { apply (triage_pass _ _ 2); [rewrite pad_to_length; lia| | | | | |]; rewrite ?B by lia; unfold le16; rewrite ?B by lia; subst rp; unfold rep_normal, mbx_hdr, b; cbn [app nth].
    - reflexivity.
    - lia.
    - reflexivity.
    - reflexivity.
    - lia.
    - cbn [validate]. rewrite (le16_split idx I), !N.eqb_refl. reflexivity. }
  rewrite T. cbn [fst snd plen]. rewrite skipn_pad by lia.
  rewrite B by lia. unfold le16. rewrite !B by lia.
  assert (R8 : b rp 8 = 65) by (subst rp; reflexivity). rewrite R8.
  replace (N.testbit 65 1) with false by reflexivity. cbv zeta.
  assert (SK : skipn 12 rp = le_bytes 4 total ++ first).
  { subst rp. unfold rep_normal, mbx_hdr. cbn [app skipn]. reflexivity. }
  rewrite SK.
  assert (L0 : b rp 0 + 256 * b rp 1 = 10 + N.of_nat n).
  { subst rp. unfold rep_normal, mbx_hdr, b. cbn [app nth]. fold n. lia. }
  rewrite L0. replace (10 + N.of_nat n - 10) with (N.of_nat n) by lia. rewrite Nat2N.id.
  replace (length ((le_bytes 4 total ++ first) ++ repeat (d_pad d) (d_mlen d - length rp)) <? 4)%nat with false
    by (symmetry; apply Nat.ltb_ge; rewrite !app_length, le_bytes_length; lia).
  assert (C32 : le32 ((le_bytes 4 total ++ first) ++ repeat (d_pad d) (d_mlen d - length rp)) 0 = total).
  { unfold le32, le16, b. cbn [le_bytes app nth]. lia. }
  rewrite C32. replace (N.of_nat cap <? total) with false by (symmetry; apply N.ltb_ge; lia).
  replace (total <=? N.of_nat n) with false by (symmetry; apply N.leb_gt; exact SEG).
  assert (SK4 : skipn 4 ((le_bytes 4 total ++ first) ++ repeat (d_pad d) (d_mlen d - length rp)) = first ++ repeat (d_pad d) (d_mlen d - length rp)).
  { cbn [le_bytes app skipn]. reflexivity. }
  rewrite SK4. replace (length (first ++ repeat (d_pad d) (d_mlen d - length rp)) <? n)%nat with false
    by (symmetry; apply Nat.ltb_ge; rewrite app_length; fold n; lia).
  replace (cap <? n)%nat with false by (symmetry; apply Nat.ltb_ge; lia).
  rewrite firstn_app, firstn_all2 by (fold n; lia). fold n. rewrite Nat.sub_diag. cbn [firstn]. rewrite app_nil_r. reflexivity.
Qed.

(* Segmented upload against a conforming server: whatever the segment sizes, whatever part of the
   object the initiate response already carries, the bytes handed to the caller are the object. *)
Theorem read_segmented d idx sub ca cap c' first chunks cs per' :
  (length (d_q d) <= 10)%nat ->
  d_per d = [rep_normal c' idx sub (N.of_nat (length first + length (concat chunks))) first] :: seg_replies cs false chunks ++ per' ->
  c' <= 7 -> idx < 65536 -> sub < 256 -> (forall c, In c cs -> c <= 7) -> (length chunks <= length cs)%nat ->
  chunks <> [] -> Forall (chunk_ok (d_mlen d)) chunks ->
  (length first + 16 <= d_mlen d)%nat -> N.of_nat (d_mlen d) < 65536 ->
  (length first + length (concat chunks) <= cap)%nat -> N.of_nat cap < 4294967296 ->
  exists d', sdo_read_payload idx sub ca cap d = (Ok (first ++ concat chunks), d') /\ d_per d' = per'.
Proof.
  intros Q P C I Sb CS LC NE OK M MB CAP CB.
  assert (POS : (1 <= length (concat chunks))%nat).
  { destruct chunks as [|ch r]; [congruence|]. inversion OK as [|? ? [O1 _] _]; subst. cbn [concat]. rewrite app_length. lia. }
  rewrite (initiate_normal d idx sub ca cap c' _ first _ Q P C I Sb) by lia.
  destruct (after_fields d (req_upload (d_counter d) idx sub ca) (seg_replies cs false chunks ++ per')) as (A1 & A2 & A3).
  destruct (segments_assemble chunks cs false cap first (after d (req_upload (d_counter d) idx sub ca) (seg_replies cs false chunks ++ per')) per' (S cap))
    as (d' & S1 & S2 & _); try assumption; try reflexivity.
  - assert (LL : (length chunks <= length (concat chunks))%nat).
    { clear -OK. induction chunks as [|ch r IH]; [cbn; lia|]. inversion OK as [|? ? [O1 _] OKr]; subst. cbn [concat length]. rewrite app_length. specialize (IH OKr). lia. }
    lia.
  - exists d'. split; assumption.
Qed.
