(* What a conforming CoE server answers (CiA 301 / ETG 1000.6 SDO upload and download), as byte
   strings.  Used to state C15: the client against these replies returns the object.  No proofs. *)
From EC Require Import Base.Prelude Base.Bytes Coe.Sdo.
Local Open Scope N_scope.

(* initiate upload response, expedited: 1..4 data bytes *)
Definition rep_expedited (c idx sub : N) (data : list N) : list N :=
  mbx_hdr 10 c ++ [0; 48; 67 + 4 * (4 - N.of_nat (length data)); idx mod 256; idx / 256; sub] ++ pad_to 4 0 data.

(* initiate upload response, normal: complete size, then the first (or all) data bytes *)
Definition rep_normal (c idx sub total : N) (data : list N) : list N :=
  mbx_hdr (10 + N.of_nat (length data)) c ++ [0; 48; 65; idx mod 256; idx / 256; sub] ++ le_bytes 4 total ++ data.

(* upload segment response: command 0; fewer than 7 bytes are padded to 7 and the unused count given *)
Definition rep_segment (c : N) (toggle last : bool) (data : list N) : list N :=
  let n := length data in
  mbx_hdr (if (n <? 7)%nat then 10 else 3 + N.of_nat n) c ++
  [0; 48; (if last then 1 else 0) + 2 * (if (n <? 7)%nat then 7 - N.of_nat n else 0) + (if toggle then 16 else 0)] ++
  (if (n <? 7)%nat then pad_to 7 0 data else data).

Definition rep_abort (c idx sub code : N) : list N :=
  mbx_hdr 10 c ++ [0; 32; 128; idx mod 256; idx / 256; sub] ++ le_bytes 4 code.

Definition rep_emergency (c code reg : N) (extra : list N) : list N :=
  mbx_hdr 10 c ++ [0; 16] ++ le_bytes 2 code ++ [reg] ++ pad_to 5 0 extra.

Definition rep_download (c idx sub : N) : list N :=
  mbx_hdr 10 c ++ [0; 48; 96; idx mod 256; idx / 256; sub; 0; 0; 0; 0].

(* the replies of a segmented upload of [first ++ concat chunks]: toggles alternate from 0, only
   the last segment is marked last *)
Fixpoint seg_replies (cs : list N) (toggle : bool) (chunks : list (list N)) : list (list (list N)) :=
  match chunks with
  | [] => []
  | [ch] => [[rep_segment (hd 0 cs) toggle true ch]]
  | ch :: rest => [rep_segment (hd 0 cs) toggle false ch] :: seg_replies (tl cs) (negb toggle) rest
  end.
