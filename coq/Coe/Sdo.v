(* C15/C16: the CoE client (src/mailbox/coe/mod.rs) against a mailbox device.  The device is its
   out-mailbox queue plus the replies it will produce for each of the next requests (any bytes).
   Typed header fields use the enum definitions generated from the sources.  No proofs here. *)
From EC Require Import Base.Prelude Base.Bytes Wire.Layout Gen.SrcLayouts.
Local Open Scope N_scope.

Inductive cerr :=
| CWireInvalid | CWireShort | CInternal | CDecode | CTimeout
| CEmergency (code reg : N) | CAborted (code addr sub : N)
| CInvalidResponse (addr sub : N) | CTooLong (addr sub : N) | CCapacity.

Record dev := {
  d_mlen : nat;                     (* length of the read (device -> master) mailbox *)
  d_wlen : nat;                     (* length of the write (master -> device) mailbox *)
  d_pad : N;                        (* what the device leaves behind a short reply *)
  d_q : list (list N);              (* out mailbox queue *)
  d_per : list (list (list N));     (* replies to the requests still to come *)
  d_reqs : list (list N);           (* requests received so far *)
  d_counter : N                     (* next mailbox counter the master will use *)
}.

Definition pad_to (n : nat) (x : N) (l : list N) : list N := firstn n (l ++ repeat x n).

Definition next_counter (c : N) : N := if 7 <=? c then 1 else c + 1.

(* wait_for_mailboxes: up to ten stale replies are read away *)
Fixpoint drain (n : nat) (q : list (list N)) : list (list N) :=
  match n, q with
  | S k, _ :: r => drain k r
  | _, _ => q
  end.

(* write the request; the device queues its replies *)
Definition send (d : dev) (req : list N) : dev :=
  {| d_mlen := d_mlen d; d_wlen := d_wlen d; d_pad := d_pad d;
     d_q := drain 10 (d_q d) ++ hd [] (d_per d); d_per := tl (d_per d);
     d_reqs := d_reqs d ++ [pad_to (Nat.max (d_wlen d) (length req)) 0 req]; d_counter := next_counter (d_counter d) |}.

(* wait_for_mailbox_response *)
Definition recv (d : dev) : res cerr (list N * dev) :=
  match d_q d with
  | [] => Err CTimeout
  | r :: q => Ok (pad_to (d_mlen d) (d_pad d) r,
                  {| d_mlen := d_mlen d; d_wlen := d_wlen d; d_pad := d_pad d; d_q := q; d_per := d_per d; d_reqs := d_reqs d; d_counter := d_counter d |})
  end.

Definition ev (e : enum_def) (raw : N) : res cerr N :=
  match enum_unpack e (Z.of_N raw) with
  | Ok v => Ok (Z.to_N (enum_pack e v))
  | _ => Err CWireInvalid
  end.

Definition b (l : list N) (i : nat) : N := nth i l 0.
Definition le16 (l : list N) (i : nat) : N := b l i + 256 * b l (S i).
Definition le32 (l : list N) (i : nat) : N := le16 l i + 65536 * le16 l (S (S i)).

(* ---------- requests ---------- *)
Definition mbx_hdr (len counter : N) : list N := [len mod 256; len / 256; 0; 0; 0; 3 + 16 * counter].

Definition req_upload (counter idx sub : N) (ca : bool) : list N :=
  mbx_hdr 10 counter ++ [0; 32; 64 + (if ca then 16 else 0); idx mod 256; idx / 256; sub].

Definition req_segment (counter : N) (toggle : bool) : list N :=
  mbx_hdr 10 counter ++ [0; 32; 96 + (if toggle then 16 else 0)].

Definition req_download (counter idx sub : N) (ca : bool) (data : list N) : list N :=
  mbx_hdr 10 counter ++ [0; 32; 35 + 4 * (4 - N.of_nat (length data)) + (if ca then 16 else 0); idx mod 256; idx / 256; sub]
  ++ pad_to 4 0 data.

Definition req_info (counter list_type : N) : list N :=
  mbx_hdr 8 counter ++ [0; 128; 1; 0; 0; 0; list_type mod 256; list_type / 256].

(* ---------- response triage (mailbox_write_read) ---------- *)
Inductive rkind := RUpload (idx sub : N) | RSegment | RDownload (idx sub : N).

Definition plen (k : rkind) : nat := match k with RUpload _ _ => 12%nat | RSegment => 9%nat | RDownload _ _ => 16%nat end.

Definition validate (k : rkind) (addr sub : N) : bool :=
  match k with
  | RUpload i s | RDownload i s => (addr =? i) && (sub =? s)
  | RSegment => true
  end.

(* the headers every response is read through first *)
Definition triage (k : rkind) (r : list N) : res cerr (list N) :=
  (* MailboxAndCoeHeader::unpack_from_slice: 8 bytes or ReadBufferTooShort, then the enums *)
  if (length r <? 8)%nat then Err CWireShort else
  let? _ := ev enum_Priority (b r 4 / 64) in
  let? mt := ev enum_MailboxType (b r 5 mod 16) in
  let? service := ev enum_CoeService (b r 7 / 16) in
  (* an emergency message: error code and register follow the CoE header directly *)
  if service =? 1 then (if (length r <? 16)%nat then Err CWireShort else Err (CEmergency (le16 r 8) (b r 10)))
  else
  (* HeadersRaw::unpack_from_slice: 12 bytes *)
  if (length r <? 12)%nat then Err CWireShort else
  let? command := ev enum_CoeCommand (b r 8 / 32) in
  let addr := le16 r 9 in let sub := b r 11 in
  if command =? 4 then
    if (length r <? 16)%nat then Err CWireShort else
    let? code := ev enum_CoeAbortCode (le32 r 12) in Err (CAborted code addr sub)
  else if negb (mt =? 3) || negb (validate k addr sub) then Err (CInvalidResponse addr sub)
  (* R::unpack_from_slice: the request type's own header length *)
  else if (length r <? plen k)%nat then Err CWireShort
  else Ok (skipn (plen k) r).

(* the client's operations run over the device: result and the device afterwards (also on errors,
   so the requests sent before a failure stay visible) *)
Definition M (A : Type) : Type := dev -> res cerr A * dev.
Definition ret {A} (x : A) : M A := fun d => (Ok x, d).
Definition fail {A} (e : cerr) : M A := fun d => (Err e, d).
Definition bind {A B} (m : M A) (f : A -> M B) : M B :=
  fun d => match m d with
           | (Ok x, d') => f x d'
           | (Err e, d') => (Err e, d') | (Panic s, d') => (Panic s, d') | (Hang, d') => (Hang, d')
           end.
Definition lift {A} (r : res cerr A) : M A := fun d => (r, d).
Notation "'do' x '<-' m ';' k" := (bind m (fun x => k)) (at level 200, x name, m at level 100, k at level 200, right associativity).
Notation "'do' ' p '<-' m ';' k" := (bind m (fun x => match x with p => k end)) (at level 200, p strict pattern, m at level 100, k at level 200, right associativity).

Definition m_send (req : list N) : M unit := fun d => (Ok tt, send d req).
Definition m_recv : M (list N) := fun d => match recv d with Ok (r, d') => (Ok r, d') | Err e => (Err e, d) | Panic s => (Panic s, d) | Hang => (Hang, d) end.
Definition m_counter : M N := fun d => (Ok (d_counter d), d).

(* one request/response exchange: the padded response and the data behind the request's header *)
Definition exchange (req : list N) (k : rkind) : M (list N * list N) :=
  do _ <- m_send req;
  do r <- m_recv;
  do data <- lift (triage k r);
  ret (r, data).

(* ---------- sdo_write ---------- *)
Definition sdo_write (idx sub : N) (ca : bool) (data : list N) : M unit :=
  if (4 <? length data)%nat then fail CInternal
  else
    do c <- m_counter;
    do _ <- exchange (req_download c idx sub ca data) (RDownload idx sub);
    ret tt.

Fixpoint sdo_write_each (idx : N) (i : N) (vals : list (list N)) : M unit :=
  match vals with
  | [] => ret tt
  | v :: r => do _ <- sdo_write idx i false v; sdo_write_each idx (i + 1) r
  end.

(* sdo_write_array: count 0, the values at sub-indices 1.., then the count *)
Definition sdo_write_array (idx : N) (vals : list (list N)) : M unit :=
  do _ <- sdo_write idx 0 false [0];
  do _ <- sdo_write_each idx 1 vals;
  sdo_write idx 0 false [N.of_nat (length vals) mod 256].

(* ---------- sdo_read ---------- *)
(* segments: [acc] = bytes already in the buffer of size [cap] *)
Fixpoint segments (fuel : nat) (toggle : bool) (cap : nat) (acc : list N) : M (list N) :=
  match fuel with
  | O => fun d => (Hang, d)
  | S f =>
    do c <- m_counter;
    do '(r, data) <- exchange (req_segment c toggle) RSegment;
    let len := le16 r 0 in
    if len <? 3 then fail CInternal
    else
      let chunk0 := N.to_nat (len - 3) in
      let unused := N.to_nat (b r 8 / 2 mod 8) in
      let chunk := if (chunk0 =? 7)%nat then (chunk0 - unused)%nat else chunk0 in
      let last := N.odd (b r 8) in
      if (length data <? chunk)%nat then fail CInternal
      else if (cap <? length acc + chunk)%nat then fail CInternal
      else if (chunk =? 0)%nat && negb last then fail CInternal      (* a segment must make progress *)
      else
        let acc' := acc ++ firstn chunk data in
        if last then ret acc' else segments f (negb toggle) cap acc'
  end.

(* the bytes handed to T::unpack_from_slice, for a destination buffer of [cap] bytes *)
Definition sdo_read_payload (idx sub : N) (ca : bool) (cap : nat) : M (list N) :=
  do c <- m_counter;
  do '(r, data) <- exchange (req_upload c idx sub ca) (RUpload idx sub);
  let expedited := N.testbit (b r 8) 1 in
  if expedited then
    let n := (4 - N.to_nat (b r 8 / 4 mod 4))%nat in
    if (length data <? n)%nat then fail CInternal else ret (firstn n data)
  else
    let data_length := N.to_nat (le16 r 0 - 10) in
    if (length data <? 4)%nat then fail CWireShort
    else
      let complete := le32 data 0 in
      let rest := skipn 4 data in
      if N.of_nat cap <? complete then fail (CTooLong (le16 r 9) (b r 11))
      else if complete <=? N.of_nat data_length then
        (if (length rest <? data_length)%nat then fail CInternal else ret (firstn data_length rest))
      else
        (* segmented: what the initiate response already carries comes first *)
        if (length rest <? data_length)%nat then fail CInternal
        else if (cap <? data_length)%nat then fail CInternal
        else segments (S cap) false cap (firstn data_length rest).

(* sdo_read::<[u8; cap]>: the destination takes the first cap bytes *)
Definition sdo_read (idx sub : N) (ca : bool) (cap : nat) : M (list N) :=
  do p <- sdo_read_payload idx sub ca cap;
  if (length p <? cap)%nat then fail CDecode else ret (firstn cap p).

(* sdo_read_array::<u16, MAX>: the count from sub-index 0, then that many u16 *)
Fixpoint read_each (idx : N) (i : N) (n : nat) (acc : list N) : M (list N) :=
  match n with
  | O => ret acc
  | S k => do v <- sdo_read idx i false 2; read_each idx (i + 1) k (acc ++ [le16 v 0])
  end.

Definition sdo_read_array (idx : N) (max : nat) : M (list N) :=
  do c <- sdo_read idx 0 false 1;
  let n := N.to_nat (b c 0) in
  if (max <? n)%nat then fail CCapacity else read_each idx 1 n [].

(* ---------- SDO information ---------- *)
Fixpoint info_loop (fuel : nat) (first : bool) (acc : list N) : M (list N) :=
  match fuel with
  | O => fun d => (Hang, d)
  | S f =>
    do r <- m_recv;
    (* ObjectDescriptionListResponse::unpack_from_slice: 12 bytes or ReadBufferTooShort *)
    if (length r <? 12)%nat then fail CWireShort else
    do _ <- lift (ev enum_Priority (b r 4 / 64));
    do _ <- lift (ev enum_MailboxType (b r 5 mod 16));
    do _ <- lift (ev enum_CoeService (b r 7 / 16));
    do op <- lift (ev enum_SdoInfoOpCode (b r 8 mod 128));
    if negb (op =? 2) then fail (CInvalidResponse 0 0)
    else
      let len := le16 r 0 in
      if len <? 8 then fail CInternal
      else
        let n := N.to_nat (len - 8) in
        let body := skipn (if first then 14 else 12) r in
        if (length body <? n)%nat then fail CInternal
        else if 131070 <? N.of_nat (length acc + n) then fail CInternal
        else
          let acc' := acc ++ firstn n body in
          if N.testbit (b r 8) 7 then info_loop f false acc' else ret acc'
  end.

Definition sdo_info (list_type : N) : M (list N) :=
  do c <- m_counter;
  do _ <- m_send (req_info c list_type);
  fun d => info_loop (S (length (d_q d))) true [] d.

(* ---------- observations ---------- *)
Definition obs_cerr (e : cerr) : list Z :=
  match e with
  | CWireInvalid => [5; 1] | CWireShort => [5; 0] | CInternal => [7] | CDecode => [14] | CTimeout => [15]
  | CEmergency c r => [10; Z.of_N c; Z.of_N r] | CAborted c a s => [11; Z.of_N c; Z.of_N a; Z.of_N s]
  | CInvalidResponse a s => [12; Z.of_N a; Z.of_N s] | CTooLong a s => [13; Z.of_N a; Z.of_N s]
  | CCapacity => [16]
  end%Z.

Definition obs_reqs (d : dev) : list Z := concat (map (fun r => map Z.of_N r ++ [(-7)%Z]) (d_reqs d)).
