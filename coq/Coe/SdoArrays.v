(* C15, the remaining entry points against a conforming server: sdo_write, sdo_write_array and
   sdo_read_array (src/subdevice/mod.rs + src/mailbox/coe/mod.rs). *)
From EC Require Import Base.Prelude Base.Bytes Base.BytesProofs Wire.Layout Gen.SrcLayouts Coe.Sdo Coe.Server Coe.Run Coe.SdoProofs.
Local Open Scope N_scope.

(* one expedited download acknowledged by the server: the request on the wire carries exactly the
   value (1..4 bytes, with its length coded in the command byte) for that index and sub-index *)
Theorem write_ok d idx sub ca data c' per' :
  (length (d_q d) <= 10)%nat -> d_per d = [rep_download c' idx sub] :: per' ->
  c' <= 7 -> idx < 65536 -> sub < 256 -> (length data <= 4)%nat -> (16 <= d_mlen d)%nat ->
  sdo_write idx sub ca data d = (Ok tt, after d (req_download (d_counter d) idx sub ca data) per').
Proof.
  intros Q P C I S L M. unfold sdo_write.
  replace (4 <? length data)%nat with false by (symmetry; apply Nat.ltb_ge; exact L).
  unfold bind at 1, m_counter. unfold bind at 1.
  rewrite (exchange_reply d _ _ _ per' Q P).
  set (rp := rep_download c' idx sub).
  assert (LR : length rp = 16%nat) by (subst rp; reflexivity).
  assert (B : forall i, (i < 16)%nat -> b (pad_to (d_mlen d) (d_pad d) rp) i = b rp i) by (intros i Hi; apply b_pad; lia).
  assert (T : triage (RDownload idx sub) (pad_to (d_mlen d) (d_pad d) rp) = Ok (skipn (plen (RDownload idx sub)) (pad_to (d_mlen d) (d_pad d) rp))).
  { apply (triage_pass _ _ 3); [rewrite pad_to_length; lia| | | | | |]; rewrite ?B by lia; unfold le16; rewrite ?B by lia; subst rp; unfold rep_download, mbx_hdr, b; cbn [app nth]; try reflexivity; try lia.
    cbn [validate]. rewrite (le16_split idx I). rewrite !N.eqb_refl. reflexivity. }
  rewrite T. reflexivity.
Qed.

(* the requests and acknowledgements of sdo_write_each from sub-index i on *)
Fixpoint each_replies (cs : list N) (idx i : N) (vals : list (list N)) : list (list (list N)) :=
  match vals with
  | [] => []
  | _ :: r => [rep_download (hd 0 cs) idx i] :: each_replies (tl cs) idx (i + 1) r
  end.

Fixpoint each_reqs (wlen : nat) (c : N) (idx i : N) (vals : list (list N)) : list (list N) :=
  match vals with
  | [] => []
  | v :: r => let q := req_download c idx i false v in
              pad_to (Nat.max wlen (length q)) 0 q :: each_reqs wlen (next_counter c) idx (i + 1) r
  end.

Lemma iter_swap {A} (f : A -> A) n : forall x, Nat.iter n f (f x) = f (Nat.iter n f x).
Proof. induction n as [|n IH]; intros x; [reflexivity|]. change (f (Nat.iter n f (f x)) = f (f (Nat.iter n f x))). f_equal. apply IH. Qed.

Lemma after_fields2 d req per' :
  d_q (after d req per') = [] /\ d_per (after d req per') = per' /\ d_mlen (after d req per') = d_mlen d /\
  d_wlen (after d req per') = d_wlen d /\ d_counter (after d req per') = next_counter (d_counter d) /\
  d_reqs (after d req per') = d_reqs d ++ [pad_to (Nat.max (d_wlen d) (length req)) 0 req].
Proof. unfold after. cbn. repeat split; reflexivity. Qed.

Lemma write_each_spec idx : forall vals cs i d per',
  d_q d = [] -> d_per d = each_replies cs idx i vals ++ per' ->
  (forall c, In c cs -> c <= 7) -> (length vals <= length cs)%nat -> idx < 65536 -> i + N.of_nat (length vals) <= 256 ->
  Forall (fun v => (length v <= 4)%nat) vals -> (16 <= d_mlen d)%nat ->
  exists d', sdo_write_each idx i vals d = (Ok tt, d') /\ d_q d' = [] /\ d_per d' = per' /\ d_mlen d' = d_mlen d /\
             d_wlen d' = d_wlen d /\ d_counter d' = Nat.iter (length vals) next_counter (d_counter d) /\
             d_reqs d' = d_reqs d ++ each_reqs (d_wlen d) (d_counter d) idx i vals.
Proof.
  induction vals as [|v r IH]; intros cs i d per' Q P C L I S F M.
  - exists d. cbn [sdo_write_each each_replies each_reqs app length Nat.iter] in *. unfold ret. rewrite app_nil_r.
    repeat split; auto.
  - destruct cs as [|c0 cs]; [cbn in L; lia|]. cbn [each_replies hd tl app] in P.
    inversion F as [|? ? Fv Fr]; subst.
    cbn [sdo_write_each]. unfold bind at 1.
    rewrite (write_ok d idx i false v c0 (each_replies cs idx (i + 1) r ++ per')); auto; try (rewrite Q; cbn; lia).
    2:{ apply C. left; reflexivity. }
    2:{ cbn [length] in S. lia. }
    set (d1 := after d (req_download (d_counter d) idx i false v) (each_replies cs idx (i + 1) r ++ per')).
    destruct (after_fields2 d (req_download (d_counter d) idx i false v) (each_replies cs idx (i + 1) r ++ per')) as (A1 & A2 & A3 & A4 & A5 & A6).
    fold d1 in A1, A2, A3, A4, A5, A6.
    assert (P1 : d_per d1 = each_replies cs idx (i + 1) r ++ per') by exact A2.
    assert (C1 : forall c, In c cs -> c <= 7) by (intros c Hc; apply C; right; exact Hc).
    assert (L1 : (length r <= length cs)%nat) by (cbn [length] in L; lia).
    assert (S1 : i + 1 + N.of_nat (length r) <= 256) by (cbn [length] in S; lia).
    assert (M1 : (16 <= d_mlen d1)%nat) by (rewrite A3; exact M).
    destruct (IH cs (i + 1) d1 per' A1 P1 C1 L1 I S1 Fr M1) as [d' (E & B1 & B2 & B3 & B4 & B5 & B6)].
    exists d'. split; [exact E|]. split; [exact B1|]. split; [exact B2|]. split; [rewrite B3, A3; reflexivity|].
    split; [rewrite B4, A4; reflexivity|]. split.
    + rewrite B5, A5. cbn [length Nat.iter]. apply iter_swap.
    + rewrite B6, A6, A4, A5. cbn [each_reqs]. rewrite <- app_assoc. reflexivity.
Qed.

(* sdo_write_array: the count is cleared, every value goes to its sub-index 1.., then the count is
   written - and these are exactly the requests on the wire, in this order *)
Theorem write_array_ok d idx vals c0 cs cn per' :
  d_q d = [] ->
  d_per d = [rep_download c0 idx 0] :: each_replies cs idx 1 vals ++ [rep_download cn idx 0] :: per' ->
  c0 <= 7 -> cn <= 7 -> (forall c, In c cs -> c <= 7) -> (length vals <= length cs)%nat ->
  idx < 65536 -> N.of_nat (length vals) < 256 ->
  Forall (fun v => (length v <= 4)%nat) vals -> (16 <= d_mlen d)%nat ->
  exists d', sdo_write_array idx vals d = (Ok tt, d') /\ d_per d' = per' /\
    let q0 := req_download (d_counter d) idx 0 false [0] in
    let c1 := next_counter (d_counter d) in
    let cl := Nat.iter (length vals) next_counter c1 in
    let ql := req_download cl idx 0 false [N.of_nat (length vals) mod 256] in
    d_reqs d' = d_reqs d ++ [pad_to (Nat.max (d_wlen d) (length q0)) 0 q0] ++ each_reqs (d_wlen d) c1 idx 1 vals ++
                [pad_to (Nat.max (d_wlen d) (length ql)) 0 ql].
Proof.
  intros Q P C0 Cn C L I S F M. unfold sdo_write_array. unfold bind at 1.
  rewrite (write_ok d idx 0 false [0] c0 (each_replies cs idx 1 vals ++ [rep_download cn idx 0] :: per')); auto; try (rewrite Q; cbn; lia); try lia.
  set (d1 := after d (req_download (d_counter d) idx 0 false [0]) (each_replies cs idx 1 vals ++ [rep_download cn idx 0] :: per')).
  destruct (after_fields2 d (req_download (d_counter d) idx 0 false [0]) (each_replies cs idx 1 vals ++ [rep_download cn idx 0] :: per')) as (A1 & A2 & A3 & A4 & A5 & A6).
  fold d1 in A1, A2, A3, A4, A5, A6.
  assert (M1 : (16 <= d_mlen d1)%nat) by (rewrite A3; exact M).
  assert (S1 : 1 + N.of_nat (length vals) <= 256) by lia.
  destruct (write_each_spec idx vals cs 1 d1 ([rep_download cn idx 0] :: per') A1 A2 C L I S1 F M1) as [d2 (E & B1 & B2 & B3 & B4 & B5 & B6)].
  unfold bind at 1. rewrite E.
  assert (M2 : (16 <= d_mlen d2)%nat) by (rewrite B3, A3; exact M).
  assert (Q2 : (length (d_q d2) <= 10)%nat) by (rewrite B1; cbn; lia).
  assert (L2 : (length [(N.of_nat (length vals) mod 256)%N] <= 4)%nat) by (cbn; lia).
  rewrite (write_ok d2 idx 0 false [N.of_nat (length vals) mod 256] cn per' Q2 B2 Cn I ltac:(lia) L2 M2).
  eexists. split; [reflexivity|]. destruct (after_fields2 d2 (req_download (d_counter d2) idx 0 false [N.of_nat (length vals) mod 256]) per') as (D1 & D2 & D3 & D4 & D5 & D6).
  split; [exact D2|]. cbv zeta. rewrite D6, B6, A6, B4, A4, B5, A5. rewrite <- !app_assoc. reflexivity.
Qed.

(* sdo_read_array::<u16, MAX>: the count from sub-index 0, then that many 16-bit values from the
   sub-indices 1..count, in order *)
Fixpoint array_replies (cs : list N) (idx i : N) (vals : list N) : list (list (list N)) :=
  match vals with
  | [] => []
  | v :: r => [rep_expedited (hd 0 cs) idx i (le_bytes 2 v)] :: array_replies (tl cs) idx (i + 1) r
  end.

Lemma sdo_read_expedited_exact d idx sub c' data per' :
  (length (d_q d) <= 10)%nat -> d_per d = [rep_expedited c' idx sub data] :: per' ->
  c' <= 7 -> idx < 65536 -> sub < 256 -> (1 <= length data <= 4)%nat -> (16 <= d_mlen d)%nat ->
  sdo_read idx sub false (length data) d = (Ok data, after d (req_upload (d_counter d) idx sub false) per').
Proof.
  intros Q P C I S L M. unfold sdo_read. unfold bind at 1.
  rewrite (read_expedited d idx sub false (length data) c' data per' Q P C I S L M).
  rewrite Nat.ltb_irrefl, firstn_all. reflexivity.
Qed.

Lemma read_each_spec idx : forall vals cs i d per' acc,
  d_q d = [] -> d_per d = array_replies cs idx i vals ++ per' ->
  (forall c, In c cs -> c <= 7) -> (length vals <= length cs)%nat -> idx < 65536 -> i + N.of_nat (length vals) <= 256 ->
  Forall (fun v => v < 65536) vals -> (16 <= d_mlen d)%nat ->
  exists d', read_each idx i (length vals) acc d = (Ok (acc ++ vals), d') /\ d_per d' = per'.
Proof.
  induction vals as [|v r IH]; intros cs i d per' acc Q P C L I S F M.
  - exists d. cbn [read_each length array_replies app] in *. unfold ret. rewrite app_nil_r. split; auto.
  - destruct cs as [|c0 cs]; [cbn in L; lia|]. cbn [array_replies hd tl app] in P.
    inversion F as [|? ? Fv Fr]; subst. cbn [length read_each]. unfold bind at 1.
    assert (Q0 : (length (d_q d) <= 10)%nat) by (rewrite Q; cbn; lia).
    assert (C0 : c0 <= 7) by (apply C; left; reflexivity).
    assert (S0 : i < 256) by (cbn [length] in S; lia).
    assert (L0 : (1 <= length (le_bytes 2 v) <= 4)%nat) by (rewrite le_bytes_length; lia).
    change (sdo_read idx i false 2) with (sdo_read idx i false (length (le_bytes 2 v))).
    rewrite (sdo_read_expedited_exact d idx i c0 (le_bytes 2 v) (array_replies cs idx (i + 1) r ++ per') Q0 P C0 I S0 L0 M).
    set (d1 := after d (req_upload (d_counter d) idx i false) (array_replies cs idx (i + 1) r ++ per')).
    destruct (after_fields2 d (req_upload (d_counter d) idx i false) (array_replies cs idx (i + 1) r ++ per')) as (A1 & A2 & A3 & A4 & A5 & A6).
    fold d1 in A1, A2, A3, A4, A5, A6.
    assert (V : le16 (le_bytes 2 v) 0 = v) by (unfold le16, b, le_bytes; cbn [nth]; lia).
    rewrite V.
    assert (P1 : d_per d1 = array_replies cs idx (i + 1) r ++ per') by exact A2.
    assert (C1 : forall c, In c cs -> c <= 7) by (intros c Hc; apply C; right; exact Hc).
    assert (L1 : (length r <= length cs)%nat) by (cbn [length] in L; lia).
    assert (S1 : i + 1 + N.of_nat (length r) <= 256) by (cbn [length] in S; lia).
    assert (M1 : (16 <= d_mlen d1)%nat) by (rewrite A3; exact M).
    destruct (IH cs (i + 1) d1 per' (acc ++ [v]) A1 P1 C1 L1 I S1 Fr M1) as [d' (E & B)].
    exists d'. rewrite E. rewrite <- app_assoc. split; [reflexivity|exact B].
Qed.

Theorem read_array_ok d idx max vals c0 cs per' :
  d_q d = [] -> d_per d = [rep_expedited c0 idx 0 [N.of_nat (length vals)]] :: array_replies cs idx 1 vals ++ per' ->
  c0 <= 7 -> (forall c, In c cs -> c <= 7) -> (length vals <= length cs)%nat -> idx < 65536 ->
  N.of_nat (length vals) < 256 -> (length vals <= max)%nat ->
  Forall (fun v => v < 65536) vals -> (16 <= d_mlen d)%nat ->
  exists d', sdo_read_array idx max d = (Ok vals, d') /\ d_per d' = per'.
Proof.
  intros Q P C0 C L I S Mx F M. unfold sdo_read_array. unfold bind at 1.
  assert (Q0 : (length (d_q d) <= 10)%nat) by (rewrite Q; cbn; lia).
  change (sdo_read idx 0 false 1) with (sdo_read idx 0 false (length [N.of_nat (length vals)])).
  rewrite (sdo_read_expedited_exact d idx 0 c0 [N.of_nat (length vals)] (array_replies cs idx 1 vals ++ per') Q0 P C0 I ltac:(lia) ltac:(cbn; lia) M).
  cbn [b nth]. cbv zeta. rewrite Nat2N.id.
  replace (max <? length vals)%nat with false by (symmetry; apply Nat.ltb_ge; exact Mx).
  set (d1 := after d (req_upload (d_counter d) idx 0 false) (array_replies cs idx 1 vals ++ per')).
  destruct (after_fields2 d (req_upload (d_counter d) idx 0 false) (array_replies cs idx 1 vals ++ per')) as (A1 & A2 & A3 & A4 & A5 & A6).
  fold d1 in A1, A2, A3, A4, A5, A6.
  assert (M1 : (16 <= d_mlen d1)%nat) by (rewrite A3; exact M).
  assert (S1 : 1 + N.of_nat (length vals) <= 256) by lia.
  destruct (read_each_spec idx vals cs 1 d1 per' [] A1 A2 C L I S1 F M1) as [d' (E & B)].
  exists d'. rewrite E. split; [reflexivity|exact B].
Qed.
