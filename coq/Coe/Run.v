(* the operations the coe harness performs, as one observation function *)
From EC Require Import Base.Prelude Base.Bytes Coe.Sdo.
Local Open Scope N_scope.

Inductive cop :=
| OpRead (idx sub : N) (cap : nat)
| OpWrite (idx sub : N) (data : list N)
| OpWriteArray (idx : N) (vals : list (list N))
| OpReadArray (idx : N) (max : nat)
| OpInfo (list_all : bool).

Fixpoint u16s (l : list N) : list Z :=
  match l with
  | a :: b0 :: r => Z.of_N (a + 256 * b0) :: u16s r
  | _ => []
  end.

Definition run (d : dev) (o : cop) : res cerr (list Z) * dev :=
  let fin {A} (x : res cerr A * dev) (f : A -> list Z) : res cerr (list Z) * dev :=
    match x with (Ok a, d') => (Ok (f a), d') | (Err e, d') => (Err e, d') | (Panic s, d') => (Panic s, d') | (Hang, d') => (Hang, d') end in
  match o with
  | OpRead idx sub cap => fin (sdo_read idx sub false cap d) (map Z.of_N)
  | OpWrite idx sub data => fin (sdo_write idx sub false data d) (fun _ => [])
  | OpWriteArray idx vals => fin (sdo_write_array idx vals d) (fun _ => [])
  | OpReadArray idx max => fin (sdo_read_array idx max d) (map Z.of_N)
  | OpInfo true => fin (sdo_info 1 d) (fun l => Z.of_nat (length l / 2) :: u16s l)
  | OpInfo false =>
    match sdo_info 0 d with
    | (Ok l, d') => if (length l <? 10)%nat then (Err CDecode, d')
                    else (Ok [Z.of_N (le16 l 0); Z.of_N (le16 l 2); Z.of_N (le16 l 4)], d')
    | (Err e, d') => (Err e, d') | (Panic s, d') => (Panic s, d') | (Hang, d') => (Hang, d')
    end
  end.

Definition obs_run (d : dev) (o : cop) : list Z :=
  let '(r, d') := run d o in
  (match r with
   | Ok out => 0 :: out
   | Err e => (-1) :: obs_cerr e
   | Panic _ => [-98]
   | Hang => [-99]
   end ++ [-7] ++ obs_reqs d')%Z.
