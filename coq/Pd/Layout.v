(* C08: the process-data layout of a group and what is programmed into the devices
   (src/subdevice/configuration.rs configure_fmmus / configure_pdos_coe / configure_pdos_eeprom /
   write_sm_config / write_fmmu_config, src/subdevice_group/mod.rs configure_fmmus,
   src/subdevice_group/handle.rs into_pre_op, src/pdi.rs).  Also the meaning of the FMMU registers
   on the device side (logical byte -> physical byte).  No proofs here. *)
From EC Require Import Base.Prelude Base.Bytes.
Local Open Scope N_scope.

Inductive perr := ENoFmmu | ETooLong (max desired : N).
Inductive dir := DIn | DOut.

(* SyncManagerType: 3 = process data write (outputs), 4 = process data read (inputs);
   FmmuUsage: 1 = outputs, 2 = inputs *)
Definition sm_ty (d : dir) : N := match d with DIn => 4 | DOut => 3 end.
Definition fm_ty (d : dir) : N := match d with DIn => 2 | DOut => 1 end.

(* what the device's EEPROM / object dictionary describe *)
Record smd := mkSm { sm_usage : N; sm_start : N; sm_en : bool; sm_ctl : N }.
Record pdo := mkPdo { p_index : N; p_sm : N; p_bits : list N }.
Record devd := mkDev { d_coe : bool; d_sms : list smd; d_fu : list N;
                       d_rx : list pdo; d_tx : list pdo; d_over : list (N * N) }.

(* registers of the device *)
Record fmmu := mkF { f_ls : N; f_len : N; f_ps : N; f_rd : bool; f_wr : bool; f_en : bool }.
Record smreg := mkR { r_start : N; r_len : N; r_ctl : N; r_en : bool }.
Definition fmmu0 : fmmu := mkF 0 0 0 false false false.
(* the FMMU register file of a device: 16 entities, by index *)
Definition fregs := nat -> fmmu.
Definition fmmus0 : fregs := fun _ => fmmu0.
Definition fupd (k : nat) (x : fmmu) (fs : fregs) : fregs := fun j => if Nat.eqb j k then x else fs j.
Definition flist (fs : fregs) : list fmmu := map fs (seq 0 16).

(* fixed-width arithmetic: Debug panics at [site], Release wraps *)
Definition ckw (w : N) (m : mode) (site v : N) : res perr N :=
  if v <? 2 ^ w then Ok v else match m with Debug => Panic site | Release => Ok (v mod 2 ^ w) end.
Definition ck16 := ckw 16.
Definition ck32 := ckw 32.

Definition oversampling (ov : list (N * N)) (idx : N) : N :=
  match find (fun p => fst p =? idx) ov with Some p => snd p | None => 1 end.

Fixpoint sum16 (m : mode) (site acc : N) (l : list N) : res perr N :=
  match l with
  | [] => Ok acc
  | x :: r => let? a := ck16 m site (acc + x) in sum16 m site a r
  end.

(* bit length of one PDO (sum of its entries, u16) times its oversampling factor (u16) *)
Definition pdo_bits (m : mode) (ov : list (N * N)) (p : pdo) : res perr N :=
  let? b := sum16 m 1 0 (p_bits p) in ck16 m 2 (b * oversampling ov (p_index p)).

Fixpoint sum_pdos (m : mode) (ov : list (N * N)) (acc : N) (l : list pdo) : res perr N :=
  match l with
  | [] => Ok acc
  | p :: r => let? b := pdo_bits m ov p in let? a := ck16 m 3 (acc + b) in sum_pdos m ov a r
  end.

(* the PDOs the master adds up for sync manager k: a CoE device is asked for the assignment
   object 0x1C10+k (which lists whatever is assigned to that sync manager), an EEPROM-only device
   contributes the PDOs of the direction's category that name sync manager k *)
Definition pdos_of (dv : devd) (d : dir) (k : nat) : list pdo :=
  filter (fun p => p_sm p =? N.of_nat k)
         (if d_coe dv then d_rx dv ++ d_tx dv else match d with DIn => d_tx dv | DOut => d_rx dv end).

Definition sm_bits (m : mode) (dv : devd) (d : dir) (k : nat) : res perr N :=
  sum_pdos m (d_over dv) 0 (pdos_of dv d k).

(* (bits + 7) / 8 in u16 *)
Definition bytes_of (m : mode) (bits : N) : res perr N :=
  let? t := ck16 m 4 (bits + 7) in Ok (t / 8).

(* write_fmmu_config: read the FMMU back, extend it when it is already enabled, else start a
   new one at the running offset; then advance the offset by the byte-aligned bit length *)
Definition write_fmmu (m : mode) (d : dir) (idx : nat) (sm : smd) (len bits : N)
           (fs : fregs) (off : N) : res perr (fregs * N) :=
  let f := fs idx in
  let? f' := if f_en f
             then let? l := ck16 m 5 (f_len f + len) in
                  Ok (mkF (f_ls f) l (f_ps f) (f_rd f) (f_wr f) true)
             else Ok (mkF off len (sm_start sm)
                          (match d with DIn => true | DOut => false end)
                          (match d with DIn => false | DOut => true end) true) in
  let? inc := bytes_of m bits in
  let? off' := ck32 m 6 (off + inc) in
  Ok (fupd idx f' fs, off').

Fixpoint find_idx {A} (f : A -> bool) (l : list A) : option nat :=
  match l with
  | [] => None
  | x :: r => if f x then Some O else match find_idx f r with Some i => Some (S i) | None => None end
  end.

Definition cst : Type := (fregs * list (nat * smreg) * N)%type.

(* the loop over the sync managers of one device for one direction *)
Fixpoint cfg_sms (m : mode) (dv : devd) (d : dir) (fi : option nat) (k : nat) (sms : list smd)
         (st : cst) : res perr cst :=
  match sms with
  | [] => Ok st
  | sm :: r =>
    if sm_usage sm =? sm_ty d then
      let? bits := sm_bits m dv d k in
      let? len := bytes_of m bits in
      let reg := mkR (sm_start sm) len (sm_ctl sm) (sm_en sm && (0 <? len)) in
      let '(fs, regs, off) := st in
      let? '(fs', off') :=
         if d_coe dv then
           if 0 <? bits then
             match fi with
             | None => Err ENoFmmu
             | Some i => write_fmmu m d i sm len bits fs off
             end
           else Ok (fs, off)
         else write_fmmu m d k sm len bits fs off in
      cfg_sms m dv d fi (S k) r (fs', regs ++ [(k, reg)], off')
    else cfg_sms m dv d fi (S k) r st
  end.

Definition cfg_dev (m : mode) (dv : devd) (d : dir) (fs : fregs) (off : N) : res perr cst :=
  cfg_sms m dv d (find_idx (fun u => u =? fm_ty d) (d_fu dv)) 0 (d_sms dv) (fs, [], off).

(* per device: description, FMMU registers, sync manager writes so far *)
Record dstate := mkD { ds_desc : devd; ds_fmmus : fregs; ds_regs : list (nat * smreg) }.

(* one pass over the devices of a group; windows are absolute logical addresses here *)
Fixpoint cfg_pass (m : mode) (d : dir) (ds : list dstate) (off : N)
  : res perr (list dstate * list (N * N) * N) :=
  match ds with
  | [] => Ok ([], [], off)
  | s :: r =>
    let? '(fs, regs, off1) := cfg_dev m (ds_desc s) d (ds_fmmus s) off in
    let? '(r', ws, off2) := cfg_pass m d r off1 in
    Ok (mkD (ds_desc s) fs (ds_regs s ++ regs) :: r', (off, off1) :: ws, off2)
  end.

Record gres := mkG { g_devs : list dstate; g_in : list (N * N); g_out : list (N * N);
                     g_read_len : N; g_pdi_len : N }.

Definition rel (start : N) (w : N * N) : N * N := (fst w - start, snd w - start).

(* SubDeviceGroup::configure_fmmus: inputs of every device, then outputs of every device, then
   the capacity check (the registers have been written by then) *)
Definition cfg_group_run (m : mode) (start : N) (ds : list dstate)
  : res perr (list dstate * list (N * N) * list (N * N) * N * N) :=
  let? '(ds1, wi, off1) := cfg_pass m DIn ds start in
  let? '(ds2, wo, off2) := cfg_pass m DOut ds1 off1 in
  Ok (ds2, wi, wo, off1, off2).

Definition cfg_group (m : mode) (start max : N) (ds : list dstate) : res perr gres :=
  let? '(ds2, wi, wo, off1, off2) := cfg_group_run m start ds in
  let len := off2 - start in
  if max <? len then Err (ETooLong max len)
  else Ok (mkG ds2 (map (rel start) wi) (map (rel start) wo) (off1 - start) len).

(* into_pre_op hands every group (in the order the groups first received a device) the running
   offset and advances it by the group's capacity, converted with `as u16` *)
Fixpoint group_starts (m : mode) (off : N) (maxes : list N) : res perr (list N) :=
  match maxes with
  | [] => Ok []
  | mx :: r =>
    let? off' := ck32 m 7 (off + mx mod 65536) in
    let? rest := group_starts m off' r in
    Ok (off :: rest)
  end.

(* ---------- the device side: what a programmed FMMU does with a logical byte address ---------- *)
Definition fmap (f : fmmu) (la : N) : option N :=
  if f_en f && (f_ls f <=? la) && (la <? f_ls f + f_len f) then Some (f_ps f + (la - f_ls f)) else None.

(* physical addresses a logical read / write of byte [la] touches on a device *)
Definition targets (rd : bool) (fs : fregs) (la : N) : list N :=
  flat_map (fun f => if (if rd then f_rd f else f_wr f)
                     then match fmap f la with Some p => [p] | None => [] end else []) (flist fs).

(* ---------- unbounded specification-side quantities ---------- *)
Definition sbits_pdo (ov : list (N * N)) (p : pdo) : N := fold_right N.add 0 (p_bits p) * oversampling ov (p_index p).
Definition sbits (dv : devd) (d : dir) (k : nat) : N :=
  fold_right N.add 0 (map (sbits_pdo (d_over dv)) (pdos_of dv d k)).
Definition slen (dv : devd) (d : dir) (k : nat) : N := (sbits dv d k + 7) / 8.

(* process-data sync managers of a direction, by index *)
Fixpoint pd_sms (d : dir) (k : nat) (sms : list smd) : list (nat * smd) :=
  match sms with
  | [] => []
  | sm :: r => if sm_usage sm =? sm_ty d then (k, sm) :: pd_sms d (S k) r else pd_sms d (S k) r
  end.

Definition dev_len (dv : devd) (d : dir) : N :=
  fold_right N.add 0 (map (fun p => slen dv d (fst p)) (pd_sms d 0 (d_sms dv))).

(* ---------- observation vector for the correspondence check ---------- *)
Definition zb (b : bool) : Z := if b then 1%Z else 0%Z.
Definition obs_fmmu (f : fmmu) : list Z :=
  [Z.of_N (f_ls f); Z.of_N (f_len f); Z.of_N (f_ps f); zb (f_rd f); zb (f_wr f); zb (f_en f)].
Definition obs_reg (p : nat * smreg) : list Z :=
  [Z.of_nat (fst p); Z.of_N (r_start (snd p)); Z.of_N (r_len (snd p)); Z.of_N (r_ctl (snd p)); zb (r_en (snd p))].
Definition obs_win (w : N * N) : list Z :=
  if fst w =? snd w then [(-1)%Z; 0%Z] else [Z.of_N (fst w); Z.of_N (snd w - fst w)].

Definition obs_group (m : mode) (start max : N) (dvs : list devd) : list Z :=
  match cfg_group m start max (map (fun dv => mkD dv fmmus0 []) dvs) with
  | Ok g =>
    (0 :: Z.of_N (g_pdi_len g) :: Z.of_N (g_read_len g) ::
       concat (map obs_win (g_in g)) ++ [-7] ++ concat (map obs_win (g_out g)) ++ [-7] ++
       concat (map (fun s => concat (map obs_fmmu (flist (ds_fmmus s))) ++ [-8] ++ concat (map obs_reg (ds_regs s)) ++ [-9]) (g_devs g)))%Z
  | Err ENoFmmu => [1]%Z
  | Err (ETooLong mx l) => [2; Z.of_N mx; Z.of_N l]%Z
  | Panic s => [-98; Z.of_N s]%Z
  | Hang => [-99]%Z
  end.

Definition obs_starts (m : mode) (maxes : list N) : list Z :=
  match group_starts m 0 maxes with
  | Ok l => map Z.of_N l
  | _ => [(-98)%Z]
  end.
