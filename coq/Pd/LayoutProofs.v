(* C08 proofs about Pd/Layout.v.  The theorems are stated for the Debug integer mode: a run that
   ends without a panic there has passed every width check, so its numbers are the true ones;
   [release_agrees] then carries them to the Release mode. *)
From EC Require Import Base.Prelude Base.Bytes Pd.Layout.
Local Open Scope N_scope.

(* ---------- fixed-width checks ---------- *)
Lemma ckw_debug w s v x : ckw w Debug s v = Ok x -> x = v /\ v < 2 ^ w.
Proof. unfold ckw. destruct (v <? 2 ^ w) eqn:E; intros H; inversion H; subst. split; [reflexivity|lia]. Qed.

Lemma ckw_debug_noerr w s v e : ckw w Debug s v <> Err e.
Proof. unfold ckw. destruct (v <? 2 ^ w); discriminate. Qed.

Lemma ckw_release w s v : ~ is_panic (ckw w Debug s v) = true -> ckw w Release s v = ckw w Debug s v.
Proof. unfold ckw. destruct (v <? 2 ^ w); simpl; [reflexivity|]. intros H; exfalso; apply H; reflexivity. Qed.

Ltac ck H := let E := fresh "E" in let B := fresh "B" in apply ckw_debug in H; destruct H as [E B]; subst.

(* ---------- bit sums ---------- *)
Lemma sum16_debug s l : forall acc b, sum16 Debug s acc l = Ok b -> b = acc + fold_right N.add 0 l.
Proof.
  induction l as [|x r IH]; simpl; intros acc b H.
  - inversion H; lia.
  - unfold ck16 in H. destruct (ckw 16 Debug s (acc + x)) eqn:E; simpl in H; try discriminate.
    ck E. apply IH in H. lia.
Qed.

Lemma pdo_bits_debug ov p b : pdo_bits Debug ov p = Ok b -> b = sbits_pdo ov p.
Proof.
  unfold pdo_bits, sbits_pdo. destruct (sum16 Debug 1 0 (p_bits p)) eqn:E; simpl; try discriminate.
  intros H. unfold ck16 in H. ck H. apply sum16_debug in E. subst. f_equal.
Qed.

Lemma sum_pdos_debug ov l : forall acc b, sum_pdos Debug ov acc l = Ok b ->
  b = acc + fold_right N.add 0 (map (sbits_pdo ov) l).
Proof.
  induction l as [|p r IH]; simpl; intros acc b H.
  - inversion H; lia.
  - destruct (pdo_bits Debug ov p) eqn:E; simpl in H; try discriminate.
    apply pdo_bits_debug in E; subst.
    unfold ck16 in H. destruct (ckw 16 Debug 3 (acc + sbits_pdo ov p)) eqn:E2; simpl in H; try discriminate.
    ck E2. apply IH in H. lia.
Qed.

Lemma sm_bits_debug dv d k b : sm_bits Debug dv d k = Ok b -> b = sbits dv d k.
Proof. unfold sm_bits, sbits. intros H. apply sum_pdos_debug in H. lia. Qed.

Lemma bytes_of_debug b l : bytes_of Debug b = Ok l -> l = (b + 7) / 8.
Proof.
  unfold bytes_of, ck16. destruct (ckw 16 Debug 4 (b + 7)) eqn:E; simpl; try discriminate.
  intros H; inversion H; subst. ck E. reflexivity.
Qed.

(* no error other than a panic comes out of the arithmetic *)
Lemma sum16_noerr s l : forall acc e, sum16 Debug s acc l <> Err e.
Proof.
  induction l as [|x r IH]; simpl; intros acc e; [discriminate|].
  unfold ck16. destruct (ckw 16 Debug s (acc + x)) eqn:E; simpl; try discriminate; [apply IH|].
  exfalso; eapply ckw_debug_noerr; eauto.
Qed.

(* ---------- one FMMU write ---------- *)
Definition new_fmmu (d : dir) (off len ps : N) : fmmu :=
  mkF off len ps (match d with DIn => true | DOut => false end) (match d with DIn => false | DOut => true end) true.

Lemma write_fmmu_fresh d idx sm len bits fs off fs' off' :
  write_fmmu Debug d idx sm len bits fs off = Ok (fs', off') ->
  f_en (fs idx) = false ->
  fs' = fupd idx (new_fmmu d off len (sm_start sm)) fs /\ off' = off + (bits + 7) / 8.
Proof.
  unfold write_fmmu. intros H Hen. rewrite Hen in H. simpl in H.
  destruct (bytes_of Debug bits) eqn:E; simpl in H; try discriminate.
  apply bytes_of_debug in E; subst.
  unfold ck32 in H. destruct (ckw 32 Debug 6 (off + (bits + 7) / 8)) eqn:E2; simpl in H; try discriminate.
  ck E2. inversion H; subst. split; reflexivity.
Qed.

Lemma write_fmmu_extend d idx sm len bits fs off fs' off' :
  write_fmmu Debug d idx sm len bits fs off = Ok (fs', off') ->
  f_en (fs idx) = true ->
  fs' = fupd idx (mkF (f_ls (fs idx)) (f_len (fs idx) + len) (f_ps (fs idx)) (f_rd (fs idx)) (f_wr (fs idx)) true) fs
  /\ off' = off + (bits + 7) / 8.
Proof.
  unfold write_fmmu. intros H Hen. rewrite Hen in H.
  unfold ck16 in H. destruct (ckw 16 Debug 5 (f_len (fs idx) + len)) eqn:E0; simpl in H; try discriminate.
  ck E0.
  destruct (bytes_of Debug bits) eqn:E; simpl in H; try discriminate.
  apply bytes_of_debug in E; subst.
  unfold ck32 in H. destruct (ckw 32 Debug 6 (off + (bits + 7) / 8)) eqn:E2; simpl in H; try discriminate.
  ck E2. inversion H; subst. split; reflexivity.
Qed.

(* ---------- the sync manager loop of one device, EEPROM path ---------- *)
Definition spec_reg (dv : devd) (d : dir) (p : nat * smd) : nat * smreg :=
  (fst p, mkR (sm_start (snd p)) (slen dv d (fst p)) (sm_ctl (snd p)) (sm_en (snd p) && (0 <? slen dv d (fst p)))).

(* FMMU k carries sync manager k: consecutive sub-windows from [a] to [e] *)
Fixpoint chain (d : dir) (dv : devd) (fs : fregs) (a : N) (l : list (nat * smd)) (e : N) : Prop :=
  match l with
  | [] => a = e
  | p :: r => fs (fst p) = new_fmmu d a (slen dv d (fst p)) (sm_start (snd p)) /\
              chain d dv fs (a + slen dv d (fst p)) r e
  end.

Lemma pd_sms_ge d : forall sms k j sm, In (j, sm) (pd_sms d k sms) -> (k <= j)%nat.
Proof.
  induction sms as [|s r IH]; simpl; intros k j sm H; [contradiction|].
  destruct (sm_usage s =? sm_ty d).
  - destruct H as [H|H]; [inversion H; lia|]. apply IH in H. lia.
  - apply IH in H. lia.
Qed.

Lemma chain_ext d dv fs fs' : forall l a e,
  (forall j sm, In (j, sm) l -> fs' j = fs j) -> chain d dv fs a l e -> chain d dv fs' a l e.
Proof.
  induction l as [|p r IH]; simpl; intros a e Hx H; [exact H|].
  destruct H as [H1 H2]. split.
  - rewrite (Hx (fst p) (snd p)); [exact H1| left; destruct p; reflexivity].
  - apply IH; [|exact H2]. intros j sm Hin. apply (Hx j sm). right; exact Hin.
Qed.

Lemma fupd_same k x fs : fupd k x fs k = x.
Proof. unfold fupd. rewrite Nat.eqb_refl. reflexivity. Qed.
Lemma fupd_other k x fs j : j <> k -> fupd k x fs j = fs j.
Proof. unfold fupd. intros H. apply Nat.eqb_neq in H. rewrite H. reflexivity. Qed.

Lemma cfg_sms_eeprom dv d fi : d_coe dv = false -> forall sms k fs regs off fs' regs' off',
  cfg_sms Debug dv d fi k sms (fs, regs, off) = Ok (fs', regs', off') ->
  (forall j sm, In (j, sm) (pd_sms d k sms) -> f_en (fs j) = false) ->
  chain d dv fs' off (pd_sms d k sms) off' /\
  (forall j, (forall sm, ~ In (j, sm) (pd_sms d k sms)) -> fs' j = fs j) /\
  regs' = regs ++ map (spec_reg dv d) (pd_sms d k sms).
Proof.
  intros Hcoe. induction sms as [|s r IH]; intros k fs regs off fs' regs' off' H Hdis.
  - simpl in *. inversion H; subst. repeat split; auto. rewrite app_nil_r; reflexivity.
  - cbn [cfg_sms pd_sms] in *. destruct (sm_usage s =? sm_ty d) eqn:Eu.
    + destruct (sm_bits Debug dv d k) eqn:Eb; simpl in H; try discriminate.
      apply sm_bits_debug in Eb; subst.
      destruct (bytes_of Debug (sbits dv d k)) eqn:El; simpl in H; try discriminate.
      apply bytes_of_debug in El; subst. fold (slen dv d k) in H.
      rewrite Hcoe in H.
      destruct (write_fmmu Debug d k s (slen dv d k) (sbits dv d k) fs off) as [[fs1 off1]| | |] eqn:Ew; simpl in H; try discriminate.
      apply write_fmmu_fresh in Ew; [|apply (Hdis k s); left; reflexivity].
      destruct Ew as [-> ->]. fold (slen dv d k) in H.
      apply IH in H.
      * destruct H as [Hc [Ho Hr]]. split; [|split].
        -- simpl. split.
           ++ rewrite Ho; [apply fupd_same|]. intros sm Hin. apply pd_sms_ge in Hin. lia.
           ++ exact Hc.
        -- intros j Hj. rewrite Ho.
           ++ apply fupd_other. intros ->. apply (Hj s). left; reflexivity.
           ++ intros sm Hin. apply (Hj sm). right; exact Hin.
        -- rewrite Hr. rewrite <- app_assoc. reflexivity.
      * intros j sm Hin. rewrite fupd_other; [apply (Hdis j sm); right; exact Hin|].
        apply pd_sms_ge in Hin. lia.
    + apply IH in H; [exact H|exact Hdis].
Qed.

(* the offset only ever grows by the byte lengths, on both paths *)
Lemma step_offset dv d (fi : option nat) k s fs off fs1 off1 :
  (if d_coe dv then if 0 <? sbits dv d k then match fi with None => Err ENoFmmu | Some i => write_fmmu Debug d i s (slen dv d k) (sbits dv d k) fs off end else Ok (fs, off)
   else write_fmmu Debug d k s (slen dv d k) (sbits dv d k) fs off) = Ok (fs1, off1) -> off1 = off + slen dv d k.
Proof.
  intros Hw. destruct (d_coe dv).
  - destruct (0 <? sbits dv d k) eqn:Ez.
    + destruct fi as [i|]; [|discriminate].
      destruct (f_en (fs i)) eqn:Een.
      * apply write_fmmu_extend in Hw; [|exact Een]. destruct Hw as [_ ->]. reflexivity.
      * apply write_fmmu_fresh in Hw; [|exact Een]. destruct Hw as [_ ->]. reflexivity.
    + inversion Hw; subst. assert (Hz : sbits dv d k = 0) by lia. replace (slen dv d k) with 0; [lia|]. unfold slen. rewrite Hz. reflexivity.
  - destruct (f_en (fs k)) eqn:Een.
    * apply write_fmmu_extend in Hw; [|exact Een]. destruct Hw as [_ ->]. reflexivity.
    * apply write_fmmu_fresh in Hw; [|exact Een]. destruct Hw as [_ ->]. reflexivity.
Qed.

Lemma cfg_sms_offset dv d fi : forall sms k fs regs off fs' regs' off',
  cfg_sms Debug dv d fi k sms (fs, regs, off) = Ok (fs', regs', off') ->
  off' = off + fold_right N.add 0 (map (fun p => slen dv d (fst p)) (pd_sms d k sms)) /\
  regs' = regs ++ map (spec_reg dv d) (pd_sms d k sms).
Proof.
  induction sms as [|s r IH]; intros k fs regs off fs' regs' off' H.
  - simpl in *. inversion H; subst. split; [lia|rewrite app_nil_r; reflexivity].
  - cbn [cfg_sms pd_sms] in *. destruct (sm_usage s =? sm_ty d) eqn:Eu.
    + destruct (sm_bits Debug dv d k) eqn:Eb; simpl in H; try discriminate.
      apply sm_bits_debug in Eb; subst.
      destruct (bytes_of Debug (sbits dv d k)) eqn:El; simpl in H; try discriminate.
      apply bytes_of_debug in El; subst. fold (slen dv d k) in H.
      match type of H with rbind ?X _ = _ => destruct X as [[fs1 off1]| | |] eqn:Ew end; simpl in H; try discriminate.
      apply step_offset in Ew; subst. apply IH in H. destruct H as [-> ->]. simpl. split; [lia|].
      rewrite <- app_assoc. reflexivity.
    + apply IH in H. exact H.
Qed.

(* ---------- the sync manager loop of one device, CoE path: one shared FMMU ---------- *)
Definition total_len (dv : devd) (d : dir) (l : list (nat * smd)) : N :=
  fold_right N.add 0 (map (fun p => slen dv d (fst p)) l).

Definition ext_fmmu (f : fmmu) (n : N) : fmmu := mkF (f_ls f) (f_len f + n) (f_ps f) (f_rd f) (f_wr f) true.

Lemma slen_zero dv d k : (0 <? sbits dv d k) = false -> slen dv d k = 0.
Proof. intros H. assert (Hz : sbits dv d k = 0) by lia. unfold slen. rewrite Hz. reflexivity. Qed.

Lemma ext_fmmu_0 f : f_en f = true -> ext_fmmu f 0 = f.
Proof. destruct f as [a b c r w e]; unfold ext_fmmu; simpl; intros ->. f_equal; lia. Qed.

Lemma cfg_sms_coe_enabled dv d i : d_coe dv = true -> forall sms k fs regs off fs' regs' off',
  cfg_sms Debug dv d (Some i) k sms (fs, regs, off) = Ok (fs', regs', off') ->
  f_en (fs i) = true ->
  forall j, fs' j = if Nat.eqb j i then ext_fmmu (fs i) (total_len dv d (pd_sms d k sms)) else fs j.
Proof.
  intros Hcoe. induction sms as [|s r IH]; intros k fs regs off fs' regs' off' H Hen j.
  - simpl in *. inversion H; subst. unfold total_len; simpl. destruct (Nat.eqb j i) eqn:E; [|reflexivity].
    apply Nat.eqb_eq in E; subst. rewrite ext_fmmu_0; auto.
  - cbn [cfg_sms pd_sms] in *. destruct (sm_usage s =? sm_ty d) eqn:Eu; [|eapply IH; eauto].
    destruct (sm_bits Debug dv d k) eqn:Eb; simpl in H; try discriminate.
    apply sm_bits_debug in Eb; subst.
    destruct (bytes_of Debug (sbits dv d k)) eqn:El; simpl in H; try discriminate.
    apply bytes_of_debug in El; subst. fold (slen dv d k) in H.
    rewrite Hcoe in H. unfold total_len; simpl. fold (total_len dv d (pd_sms d (S k) r)).
    destruct (0 <? sbits dv d k) eqn:Ez.
    + destruct (write_fmmu Debug d i s (slen dv d k) (sbits dv d k) fs off) as [[fs1 off1]| | |] eqn:Ew; simpl in H; try discriminate.
      apply write_fmmu_extend in Ew; [|exact Hen]. destruct Ew as [-> ->].
      eapply IH with (j := j) in H; [|rewrite fupd_same; reflexivity].
      rewrite H. rewrite fupd_same. destruct (Nat.eqb j i) eqn:E.
      * unfold ext_fmmu; simpl. f_equal. lia.
      * apply Nat.eqb_neq in E. apply fupd_other; exact E.
    + simpl in H. eapply IH with (j := j) in H; [|exact Hen]. rewrite H.
      rewrite (slen_zero _ _ _ Ez). destruct (Nat.eqb j i); [|reflexivity]. f_equal.
  Qed.

(* the first sync manager of the list that carries data *)
Fixpoint first_data (dv : devd) (d : dir) (l : list (nat * smd)) : option smd :=
  match l with
  | [] => None
  | p :: r => if 0 <? sbits dv d (fst p) then Some (snd p) else first_data dv d r
  end.

Lemma cfg_sms_coe_fresh dv d fi : d_coe dv = true -> forall sms k fs regs off fs' regs' off',
  cfg_sms Debug dv d fi k sms (fs, regs, off) = Ok (fs', regs', off') ->
  match first_data dv d (pd_sms d k sms) with
  | None => forall j, fs' j = fs j
  | Some sm => exists i, fi = Some i /\
      (f_en (fs i) = false ->
       forall j, fs' j = if Nat.eqb j i then new_fmmu d off (total_len dv d (pd_sms d k sms)) (sm_start sm) else fs j)
  end.
Proof.
  intros Hcoe. induction sms as [|s r IH]; intros k fs regs off fs' regs' off' H.
  - simpl in *. inversion H; subst. reflexivity.
  - cbn [cfg_sms pd_sms] in *. destruct (sm_usage s =? sm_ty d) eqn:Eu; [|eapply IH; eauto].
    destruct (sm_bits Debug dv d k) eqn:Eb; simpl in H; try discriminate.
    apply sm_bits_debug in Eb; subst.
    destruct (bytes_of Debug (sbits dv d k)) eqn:El; simpl in H; try discriminate.
    apply bytes_of_debug in El; subst. fold (slen dv d k) in H.
    rewrite Hcoe in H. cbn [first_data fst snd].
    destruct (0 <? sbits dv d k) eqn:Ez.
    + destruct fi as [i|]; [|discriminate]. exists i. split; [reflexivity|]. intros Hen j.
      destruct (write_fmmu Debug d i s (slen dv d k) (sbits dv d k) fs off) as [[fs1 off1]| | |] eqn:Ew; simpl in H; try discriminate.
      apply write_fmmu_fresh in Ew; [|exact Hen]. destruct Ew as [-> ->].
      eapply cfg_sms_coe_enabled with (j := j) in H; [|exact Hcoe|rewrite fupd_same; reflexivity].
      rewrite H, fupd_same. unfold total_len; simpl. fold (total_len dv d (pd_sms d (S k) r)).
      destruct (Nat.eqb j i) eqn:E.
      * unfold ext_fmmu, new_fmmu; simpl. reflexivity.
      * apply Nat.eqb_neq in E. apply fupd_other; exact E.
    + simpl in H. apply IH in H.
      destruct (first_data dv d (pd_sms d (S k) r)); [|exact H].
      destruct H as [i [Hi Hf]]. exists i. split; [exact Hi|]. intros Hen j. rewrite (Hf Hen j).
      unfold total_len; simpl. rewrite (slen_zero _ _ _ Ez). reflexivity.
Qed.

(* the shared FMMU maps every sync manager's sub-window onto that sync manager's memory exactly
   when the sync managers that carry data sit back to back in the device's memory *)
Fixpoint adjacent (dv : devd) (d : dir) (p : N) (l : list (nat * smd)) : Prop :=
  match l with
  | [] => True
  | x :: r => if 0 <? sbits dv d (fst x)
              then sm_start (snd x) = p /\ adjacent dv d (p + slen dv d (fst x)) r
              else adjacent dv d p r
  end.

Fixpoint shared_chain (f : fmmu) (dv : devd) (d : dir) (a : N) (l : list (nat * smd)) : Prop :=
  match l with
  | [] => True
  | x :: r => (forall t, t < slen dv d (fst x) -> fmap f (a + t) = Some (sm_start (snd x) + t)) /\
              shared_chain f dv d (a + slen dv d (fst x)) r
  end.

Lemma shared_chain_adjacent dv d ls len ps rd wr : forall l a,
  ls <= a -> a + total_len dv d l <= ls + len ->
  adjacent dv d (ps + (a - ls)) l ->
  shared_chain (mkF ls len ps rd wr true) dv d a l.
Proof.
  induction l as [|x r IH]; simpl; intros a Hlo Hhi Hadj; [exact I|].
  unfold total_len in Hhi; simpl in Hhi. fold (total_len dv d r) in Hhi.
  destruct (0 <? sbits dv d (fst x)) eqn:Ez.
  - destruct Hadj as [Hs Hadj]. split.
    + intros t Ht. unfold fmap; simpl.
      replace ((ls <=? a + t) && (a + t <? ls + len)) with true by lia.
      f_equal. lia.
    + apply IH; [lia|lia|]. replace (ps + (a + slen dv d (fst x) - ls)) with (ps + (a - ls) + slen dv d (fst x)) by lia. exact Hadj.
  - rewrite (slen_zero _ _ _ Ez) in *. split; [intros t Ht; lia|].
    apply IH; [lia|lia|]. replace (a + 0) with a by lia. exact Hadj.
Qed.

(* chain (one FMMU per sync manager) gives the same byte-level statement without any condition *)
Lemma chain_bytes d dv fs : forall l a e, chain d dv fs a l e ->
  forall k sm, In (k, sm) l -> exists a', a <= a' /\ a' + slen dv d k <= e /\
    forall t, t < slen dv d k -> fmap (fs k) (a' + t) = Some (sm_start sm + t).
Proof.
  induction l as [|x r IH]; simpl; intros a e H k sm Hin; [contradiction|].
  destruct H as [Hf Hc].
  assert (Hmono : forall l a e, chain d dv fs a l e -> a <= e).
  { clear. induction l as [|x r IH]; simpl; intros a e H; [lia|]. destruct H as [_ H]. apply IH in H. lia. }
  destruct Hin as [Hin|Hin].
  - subst x. simpl in *. exists a. split; [lia|]. split; [apply Hmono in Hc; lia|].
    intros t Ht. rewrite Hf. unfold fmap, new_fmmu; simpl.
    replace ((a <=? a + t) && (a + t <? a + slen dv d k)) with true by lia. f_equal. lia.
  - destruct (IH _ _ Hc k sm Hin) as [a' [H1 [H2 H3]]]. exists a'. split; [lia|]. split; [exact H2|exact H3].
Qed.

(* ---------- both passes over one device, starting from cleared FMMUs ---------- *)
Lemma pd_sms_spec d : forall sms k j sm, In (j, sm) (pd_sms d k sms) ->
  nth_error sms (j - k) = Some sm /\ (sm_usage sm =? sm_ty d) = true /\ (k <= j)%nat.
Proof.
  induction sms as [|s r IH]; simpl; intros k j sm H; [contradiction|].
  destruct (sm_usage s =? sm_ty d) eqn:Eu.
  - destruct H as [H|H].
    + inversion H; subst. rewrite Nat.sub_diag. simpl. auto.
    + apply IH in H. destruct H as [H1 [H2 H3]]. replace (j - k)%nat with (S (j - S k)) by lia. simpl. split; [exact H1|split; [exact H2|lia]].
  - apply IH in H. destruct H as [H1 [H2 H3]]. replace (j - k)%nat with (S (j - S k)) by lia. simpl. split; [exact H1|split; [exact H2|lia]].
Qed.

Lemma pd_sms_dirs_apart sms j sm sm' : In (j, sm) (pd_sms DIn 0 sms) -> In (j, sm') (pd_sms DOut 0 sms) -> False.
Proof.
  intros H1 H2. apply pd_sms_spec in H1. apply pd_sms_spec in H2.
  destruct H1 as [A [B _]]. destruct H2 as [A' [B' _]]. rewrite A in A'. inversion A'; subst.
  simpl in *. lia.
Qed.

Definition pdl (dv : devd) (d : dir) := pd_sms d 0 (d_sms dv).
Definition fidx (dv : devd) (d : dir) : option nat := find_idx (fun u => u =? fm_ty d) (d_fu dv).

Definition coe_dir (dv : devd) (d : dir) (fs : fregs) (w : N * N) : Prop :=
  match first_data dv d (pdl dv d) with
  | None => True
  | Some sm => exists i, fidx dv d = Some i /\ fs i = new_fmmu d (fst w) (total_len dv d (pdl dv d)) (sm_start sm)
  end.

Definition used_by (dv : devd) (d : dir) (j : nat) : Prop :=
  if d_coe dv then first_data dv d (pdl dv d) <> None /\ fidx dv d = Some j
  else exists sm, In (j, sm) (pdl dv d).

Definition dev_post (dv : devd) (fs : fregs) (regs : list (nat * smreg)) (win wout : N * N) : Prop :=
  snd win = fst win + total_len dv DIn (pdl dv DIn) /\
  snd wout = fst wout + total_len dv DOut (pdl dv DOut) /\
  regs = map (spec_reg dv DIn) (pdl dv DIn) ++ map (spec_reg dv DOut) (pdl dv DOut) /\
  (if d_coe dv then coe_dir dv DIn fs win /\ coe_dir dv DOut fs wout
   else chain DIn dv fs (fst win) (pdl dv DIn) (snd win) /\ chain DOut dv fs (fst wout) (pdl dv DOut) (snd wout)) /\
  (forall j, ~ used_by dv DIn j -> ~ used_by dv DOut j -> fs j = fmmu0).

Lemma find_idx_some {A} (f : A -> bool) : forall l i, find_idx f l = Some i -> exists x, nth_error l i = Some x /\ f x = true.
Proof.
  induction l as [|x r IH]; simpl; intros i H; [discriminate|].
  destruct (f x) eqn:E.
  - inversion H; subst. exists x. auto.
  - destruct (find_idx f r) eqn:E2; [|discriminate]. inversion H; subst. simpl. apply IH. reflexivity.
Qed.

Lemma fidx_apart dv i : fidx dv DIn = Some i -> fidx dv DOut = Some i -> False.
Proof.
  unfold fidx. intros H1 H2. apply find_idx_some in H1. apply find_idx_some in H2.
  destruct H1 as [x [A B]]. destruct H2 as [y [A' B']]. rewrite A in A'. inversion A'; subst. simpl in *. lia.
Qed.

Lemma dev_two_pass dv a b c e fs1 r1 fs2 r2 :
  cfg_dev Debug dv DIn fmmus0 a = Ok (fs1, r1, b) ->
  cfg_dev Debug dv DOut fs1 c = Ok (fs2, r2, e) ->
  dev_post dv fs2 (r1 ++ r2) (a, b) (c, e).
Proof.
  unfold cfg_dev. intros H1 H2.
  pose proof (cfg_sms_offset _ _ _ _ _ _ _ _ _ _ _ H1) as [Hb Hr1].
  pose proof (cfg_sms_offset _ _ _ _ _ _ _ _ _ _ _ H2) as [He Hr2].
  simpl in Hr1, Hr2. subst r1 r2.
  unfold dev_post. cbn [fst snd]. fold (pdl dv DIn) in *. fold (pdl dv DOut) in *.
  split; [exact Hb|]. split; [exact He|]. split; [reflexivity|].
  destruct (d_coe dv) eqn:Hcoe.
  - (* CoE *)
    pose proof (cfg_sms_coe_fresh _ _ _ Hcoe _ _ _ _ _ _ _ _ H1) as P1.
    pose proof (cfg_sms_coe_fresh _ _ _ Hcoe _ _ _ _ _ _ _ _ H2) as P2.
    fold (pdl dv DIn) in P1. fold (pdl dv DOut) in P2. fold (fidx dv DIn) in P1. fold (fidx dv DOut) in P2.
    unfold coe_dir, used_by. rewrite Hcoe. cbn [fst snd].
    destruct (first_data dv DIn (pdl dv DIn)) as [smi|] eqn:Fi; destruct (first_data dv DOut (pdl dv DOut)) as [smo|] eqn:Fo.
    + destruct P1 as [i [Hi P1]]. specialize (P1 eq_refl). destruct P2 as [o [Ho P2]].
      assert (Hio : o <> i) by (intros ->; eapply fidx_apart; eauto).
      assert (Hen : f_en (fs1 o) = false). { rewrite P1. apply Nat.eqb_neq in Hio. rewrite Hio. reflexivity. }
      specialize (P2 Hen). split; [split|].
      * exists i. split; [exact Hi|]. rewrite P2. assert (E : Nat.eqb i o = false) by (apply Nat.eqb_neq; auto). rewrite E, P1, Nat.eqb_refl. reflexivity.
      * exists o. split; [exact Ho|]. rewrite P2, Nat.eqb_refl. reflexivity.
      * intros j Hj1 Hj2. rewrite P2. destruct (Nat.eqb j o) eqn:E1.
        -- apply Nat.eqb_eq in E1; subst. exfalso. apply Hj2. split; [discriminate|exact Ho].
        -- rewrite P1. destruct (Nat.eqb j i) eqn:E2; [|reflexivity].
           apply Nat.eqb_eq in E2; subst. exfalso. apply Hj1. split; [discriminate|exact Hi].
    + destruct P1 as [i [Hi P1]]. specialize (P1 eq_refl). split; [split; [|exact I]|].
      * exists i. split; [exact Hi|]. rewrite P2, P1, Nat.eqb_refl. reflexivity.
      * intros j Hj1 _. rewrite P2, P1. destruct (Nat.eqb j i) eqn:E2; [|reflexivity].
        apply Nat.eqb_eq in E2; subst. exfalso. apply Hj1. split; [discriminate|exact Hi].
    + destruct P2 as [o [Ho P2]].
      assert (Hen : f_en (fs1 o) = false) by (rewrite P1; reflexivity).
      specialize (P2 Hen). split; [split; [exact I|]|].
      * exists o. split; [exact Ho|]. rewrite P2, Nat.eqb_refl. reflexivity.
      * intros j _ Hj2. rewrite P2. destruct (Nat.eqb j o) eqn:E1; [|rewrite P1; reflexivity].
        apply Nat.eqb_eq in E1; subst. exfalso. apply Hj2. split; [discriminate|exact Ho].
    + split; [split; exact I|]. intros j _ _. rewrite P2, P1. reflexivity.
  - (* EEPROM *)
    apply cfg_sms_eeprom in H1; [|exact Hcoe|intros; reflexivity].
    destruct H1 as [C1 [O1 _]].
    apply cfg_sms_eeprom in H2; [|exact Hcoe|].
    + destruct H2 as [C2 [O2 _]]. fold (pdl dv DIn) in *. fold (pdl dv DOut) in *. split; [split|].
      * eapply chain_ext; [|exact C1]. intros j sm Hin. apply O2. intros sm' Hin'. eapply pd_sms_dirs_apart; eauto.
      * exact C2.
      * intros j Hj1 Hj2. unfold used_by in Hj1, Hj2. rewrite Hcoe in Hj1, Hj2.
        rewrite O2; [rewrite O1; [reflexivity|]|].
        -- intros sm Hin. apply Hj1. exists sm. exact Hin.
        -- intros sm Hin. apply Hj2. exists sm. exact Hin.
    + intros j sm Hin. rewrite O1; [reflexivity|]. intros sm' Hin'. eapply pd_sms_dirs_apart; eauto.
Qed.

(* ---------- the passes over the devices of a group ---------- *)
Inductive pass_rel (d : dir) : list dstate -> N -> list dstate -> list (N * N) -> N -> Prop :=
| pr_nil off : pass_rel d [] off [] [] off
| pr_cons s r off fs regs off1 r' ws off2 :
    cfg_dev Debug (ds_desc s) d (ds_fmmus s) off = Ok (fs, regs, off1) ->
    pass_rel d r off1 r' ws off2 ->
    pass_rel d (s :: r) off (mkD (ds_desc s) fs (ds_regs s ++ regs) :: r') ((off, off1) :: ws) off2.

Lemma cfg_pass_rel d : forall ds off ds' ws off',
  cfg_pass Debug d ds off = Ok (ds', ws, off') -> pass_rel d ds off ds' ws off'.
Proof.
  induction ds as [|s r IH]; simpl; intros off ds' ws off' H.
  - inversion H; subst. constructor.
  - destruct (cfg_dev Debug (ds_desc s) d (ds_fmmus s) off) as [[[fs regs] off1]| | |] eqn:E; simpl in H; try discriminate.
    destruct (cfg_pass Debug d r off1) as [[[r' ws'] off2]| | |] eqn:E2; simpl in H; try discriminate.
    inversion H; subst. econstructor; eauto.
Qed.

(* consecutive windows from [a] to [e] *)
Fixpoint tiles (a : N) (ws : list (N * N)) (e : N) : Prop :=
  match ws with
  | [] => a = e
  | w :: r => fst w = a /\ fst w <= snd w /\ tiles (snd w) r e
  end.

Lemma pass_rel_tiles d ds off ds' ws off' : pass_rel d ds off ds' ws off' -> tiles off ws off'.
Proof.
  induction 1; simpl; [reflexivity|]. split; [reflexivity|]. split; [|exact IHpass_rel].
  unfold cfg_dev in H. apply cfg_sms_offset in H. destruct H as [-> _]. lia.
Qed.

Lemma tiles_mono : forall ws a e, tiles a ws e -> a <= e.
Proof. induction ws as [|w r IH]; simpl; intros a e H; [lia|]. destruct H as [H1 [H2 H3]]. apply IH in H3. lia. Qed.

Lemma tiles_rel start : forall ws a e, tiles a ws e -> start <= a ->
  tiles (a - start) (map (rel start) ws) (e - start).
Proof.
  induction ws as [|w r IH]; simpl; intros a e H Hs; [lia|].
  destruct H as [H1 [H2 H3]]. split; [lia|]. split; [lia|]. apply IH; [exact H3|lia].
Qed.

Lemma tiles_app : forall ws1 a m ws2 e, tiles a ws1 m -> tiles m ws2 e -> tiles a (ws1 ++ ws2) e.
Proof.
  induction ws1 as [|w r IH]; simpl; intros a m ws2 e H1 H2; [subst; exact H2|].
  destruct H1 as [A [B C]]. split; [exact A|]. split; [exact B|]. eapply IH; eauto.
Qed.

(* what tiling means: every window inside, earlier windows entirely before later ones *)
Lemma tiles_inside : forall ws a e w, tiles a ws e -> In w ws -> a <= fst w /\ fst w <= snd w /\ snd w <= e.
Proof.
  induction ws as [|x r IH]; simpl; intros a e w H Hin; [contradiction|].
  destruct H as [H1 [H2 H3]]. destruct Hin as [->|Hin].
  - apply tiles_mono in H3. lia.
  - destruct (IH _ _ _ H3 Hin) as [A [B C]]. lia.
Qed.

Lemma tiles_ordered : forall ws a e i j wi wj, tiles a ws e -> (i < j)%nat ->
  nth_error ws i = Some wi -> nth_error ws j = Some wj -> snd wi <= fst wj.
Proof.
  induction ws as [|x r IH]; intros a e i j wi wj H Hij Hi Hj; [destruct i; discriminate|].
  simpl in H. destruct H as [H1 [H2 H3]].
  destruct j as [|j]; [lia|]. simpl in Hj. destruct i as [|i].
  - simpl in Hi. inversion Hi; subst. apply nth_error_In in Hj. destruct (tiles_inside _ _ _ _ H3 Hj) as [A _]. exact A.
  - simpl in Hi. eapply (IH _ _ i j); eauto. lia.
Qed.

Inductive Forall4 {A B C D} (P : A -> B -> C -> D -> Prop) : list A -> list B -> list C -> list D -> Prop :=
| F4_nil : Forall4 P [] [] [] []
| F4_cons a b c d la lb lc ld : P a b c d -> Forall4 P la lb lc ld -> Forall4 P (a :: la) (b :: lb) (c :: lc) (d :: ld).

Definition init_dev (dv : devd) : dstate := mkD dv fmmus0 [].

Lemma two_pass_post : forall dvs a ds1 wi b c ds2 wo e,
  pass_rel DIn (map init_dev dvs) a ds1 wi b ->
  pass_rel DOut ds1 c ds2 wo e ->
  Forall4 (fun dv s win wout => ds_desc s = dv /\ dev_post dv (ds_fmmus s) (ds_regs s) win wout) dvs ds2 wi wo.
Proof.
  induction dvs as [|dv r IH]; simpl; intros a ds1 wi b c ds2 wo e H1 H2.
  - inversion H1; subst. inversion H2; subst. constructor.
  - inversion H1; subst. inversion H2; subst. simpl in *.
    constructor.
    + split; [reflexivity|]. simpl. eapply dev_two_pass; eauto.
    + eapply IH; eauto.
Qed.

(* ---------- the group ---------- *)
Lemma unrel start w : start <= fst w -> fst w <= snd w -> (start + fst (rel start w), start + snd (rel start w)) = w.
Proof. destruct w as [x y]; unfold rel; simpl; intros A B. f_equal; lia. Qed.

Lemma Forall4_rel {A B} (P : A -> B -> N * N -> N * N -> Prop) start : forall la lb lc ld,
  Forall4 P la lb lc ld ->
  Forall (fun w => start <= fst w /\ fst w <= snd w) lc ->
  Forall (fun w => start <= fst w /\ fst w <= snd w) ld ->
  Forall4 (fun a b c d => P a b (start + fst c, start + snd c) (start + fst d, start + snd d))
          la lb (map (rel start) lc) (map (rel start) ld).
Proof.
  induction 1; intros Hc Hd; simpl; constructor.
  - inversion Hc; subst. inversion Hd; subst. destruct H3 as [X1 X2]. destruct H5 as [Y1 Y2].
    rewrite (unrel start c X1 X2), (unrel start d Y1 Y2). exact H.
  - inversion Hc; subst. inversion Hd; subst. apply IHForall4; assumption.
Qed.

Lemma tiles_forall start : forall ws a e, tiles a ws e -> start <= a ->
  Forall (fun w => start <= fst w /\ fst w <= snd w) ws.
Proof.
  intros ws a e T Hs. apply Forall_forall. intros w Hin. destruct (tiles_inside _ _ _ _ T Hin) as [A [B C]]. lia.
Qed.

Lemma cfg_group_inv start max dvs g :
  cfg_group Debug start max (map init_dev dvs) = Ok g ->
  exists ds2 wi wo off1 off2,
    pass_rel DIn (map init_dev dvs) start (fst ds2) wi off1 /\ pass_rel DOut (fst ds2) off1 (snd ds2) wo off2 /\
    off2 - start <= max /\
    g = mkG (snd ds2) (map (rel start) wi) (map (rel start) wo) (off1 - start) (off2 - start).
Proof.
  unfold cfg_group, cfg_group_run. intros H.
  destruct (cfg_pass Debug DIn (map init_dev dvs) start) as [[[ds1 wi] off1]| | |] eqn:E1; simpl in H; try discriminate.
  destruct (cfg_pass Debug DOut ds1 off1) as [[[ds2 wo] off2]| | |] eqn:E2; simpl in H; try discriminate.
  destruct (max <? off2 - start) eqn:Em; [discriminate|]. inversion H; subst.
  apply cfg_pass_rel in E1. apply cfg_pass_rel in E2.
  exists (ds1, ds2), wi, wo, off1, off2. simpl. repeat split; auto. lia.
Qed.

(* every device of a group that came up: sync managers, FMMUs and windows *)
Theorem group_devices start max dvs g :
  cfg_group Debug start max (map init_dev dvs) = Ok g ->
  Forall4 (fun dv s win wout => ds_desc s = dv /\
             dev_post dv (ds_fmmus s) (ds_regs s) (start + fst win, start + snd win) (start + fst wout, start + snd wout))
          dvs (g_devs g) (g_in g) (g_out g).
Proof.
  intros H. apply cfg_group_inv in H. destruct H as [[ds1 ds2] [wi [wo [off1 [off2 [E1 [E2 [Hm ->]]]]]]]]. simpl in *.
  pose proof (pass_rel_tiles _ _ _ _ _ _ E1) as T1. pose proof (pass_rel_tiles _ _ _ _ _ _ E2) as T2.
  pose proof (tiles_mono _ _ _ T1) as M1.
  pose proof (two_pass_post _ _ _ _ _ _ _ _ _ E1 E2) as F.
  apply (Forall4_rel _ start) in F.
  - exact F.
  - eapply tiles_forall; eauto. lia.
  - eapply tiles_forall; eauto.
Qed.

(* the windows of a group: inputs of all devices first, then outputs, gap-free from 0 to the
   image length, which is within the declared capacity *)
Theorem group_windows start max dvs g :
  cfg_group Debug start max (map init_dev dvs) = Ok g ->
  tiles 0 (g_in g) (g_read_len g) /\ tiles (g_read_len g) (g_out g) (g_pdi_len g) /\ g_pdi_len g <= max.
Proof.
  intros H. apply cfg_group_inv in H. destruct H as [[ds1 ds2] [wi [wo [off1 [off2 [E1 [E2 [Hm ->]]]]]]]]. simpl in *.
  pose proof (pass_rel_tiles _ _ _ _ _ _ E1) as T1. pose proof (pass_rel_tiles _ _ _ _ _ _ E2) as T2.
  pose proof (tiles_mono _ _ _ T1) as M1.
  split; [|split; [|exact Hm]].
  - replace 0 with (start - start) by lia. apply tiles_rel; [exact T1|lia].
  - apply tiles_rel; [exact T2|exact M1].
Qed.

(* a layout beyond the declared capacity is an error (and only then) *)
Theorem group_too_long m start max ds ds2 wi wo off1 off2 :
  cfg_group_run m start ds = Ok (ds2, wi, wo, off1, off2) ->
  cfg_group m start max ds =
    if max <? off2 - start then Err (ETooLong max (off2 - start))
    else Ok (mkG ds2 (map (rel start) wi) (map (rel start) wo) (off1 - start) (off2 - start)).
Proof. unfold cfg_group. intros ->. reflexivity. Qed.

Lemma pass_rel_total d : forall ds off ds' ws off', pass_rel d ds off ds' ws off' ->
  off' = off + fold_right N.add 0 (map (fun s => total_len (ds_desc s) d (pdl (ds_desc s) d)) ds).
Proof.
  induction 1; simpl; [lia|]. unfold cfg_dev in H. apply cfg_sms_offset in H. destruct H as [-> _].
  rewrite IHpass_rel. unfold total_len, pdl. lia.
Qed.

Lemma pass_rel_descs d : forall ds off ds' ws off', pass_rel d ds off ds' ws off' -> map ds_desc ds' = map ds_desc ds.
Proof. induction 1; simpl; [reflexivity|]. f_equal. exact IHpass_rel. Qed.

(* the image length is what the PDO configurations of the group's devices add up to *)
Definition need (dvs : list devd) : N :=
  fold_right N.add 0 (map (fun dv => total_len dv DIn (pdl dv DIn)) dvs) +
  fold_right N.add 0 (map (fun dv => total_len dv DOut (pdl dv DOut)) dvs).

Lemma descs_init dvs : map ds_desc (map init_dev dvs) = dvs.
Proof. rewrite map_map. simpl. apply map_id. Qed.

Lemma pass_rel_total' d ds off ds' ws off' : pass_rel d ds off ds' ws off' ->
  off' = off + fold_right N.add 0 (map (fun dv => total_len dv d (pdl dv d)) (map ds_desc ds)).
Proof. intros H. apply pass_rel_total in H. rewrite map_map. exact H. Qed.

Theorem group_length start max dvs g :
  cfg_group Debug start max (map init_dev dvs) = Ok g -> g_pdi_len g = need dvs /\ need dvs <= max.
Proof.
  intros H. apply cfg_group_inv in H. destruct H as [[ds1 ds2] [wi [wo [off1 [off2 [E1 [E2 [Hm ->]]]]]]]]. simpl in *.
  pose proof (pass_rel_total' _ _ _ _ _ _ E1) as A. pose proof (pass_rel_total' _ _ _ _ _ _ E2) as B.
  pose proof (pass_rel_descs _ _ _ _ _ _ E1) as D.
  rewrite D in B. rewrite descs_init in A, B. unfold need. split; lia.
Qed.

(* the passes themselves only fail for a missing FMMU *)
Lemma sum_pdos_noerr ov l : forall acc e, sum_pdos Debug ov acc l <> Err e.
Proof.
  induction l as [|p r IH]; simpl; intros acc e; [discriminate|].
  unfold pdo_bits. destruct (sum16 Debug 1 0 (p_bits p)) eqn:E1; simpl; try discriminate.
  - unfold ck16. destruct (ckw 16 Debug 2 (a * oversampling ov (p_index p))) eqn:E2; simpl; try discriminate.
    + destruct (ckw 16 Debug 3 (acc + a0)) eqn:E3; simpl; try discriminate; [apply IH|].
      exfalso; eapply ckw_debug_noerr; eauto.
    + exfalso; eapply ckw_debug_noerr; eauto.
  - exfalso; eapply sum16_noerr; eauto.
Qed.

Lemma write_fmmu_noerr d i s len bits fs off e : write_fmmu Debug d i s len bits fs off <> Err e.
Proof.
  unfold write_fmmu, bytes_of, ck16, ck32.
  destruct (f_en (fs i)).
  - destruct (ckw 16 Debug 5 (f_len (fs i) + len)) eqn:E0; simpl; try discriminate; [|exfalso; eapply ckw_debug_noerr; eauto].
    destruct (ckw 16 Debug 4 (bits + 7)) eqn:E1; simpl; try discriminate; [|exfalso; eapply ckw_debug_noerr; eauto].
    destruct (ckw 32 Debug 6 (off + a0 / 8)) eqn:E2; simpl; try discriminate. exfalso; eapply ckw_debug_noerr; eauto.
  - simpl. destruct (ckw 16 Debug 4 (bits + 7)) eqn:E1; simpl; try discriminate; [|exfalso; eapply ckw_debug_noerr; eauto].
    destruct (ckw 32 Debug 6 (off + a / 8)) eqn:E2; simpl; try discriminate. exfalso; eapply ckw_debug_noerr; eauto.
Qed.

Lemma cfg_sms_err dv d fi : forall sms k st e, cfg_sms Debug dv d fi k sms st = Err e -> e = ENoFmmu.
Proof.
  induction sms as [|s r IH]; intros k st e H; [discriminate|].
  cbn [cfg_sms] in H. destruct (sm_usage s =? sm_ty d); [|eapply IH; eauto].
  destruct (sm_bits Debug dv d k) eqn:Eb; simpl in H; try discriminate.
  2:{ exfalso. unfold sm_bits in Eb. eapply sum_pdos_noerr; eauto. }
  unfold bytes_of, ck16 in H. destruct (ckw 16 Debug 4 (a + 7)) eqn:El; simpl in H; try discriminate.
  2:{ exfalso; eapply ckw_debug_noerr; eauto. }
  destruct st as [[fs regs] off].
  match type of H with rbind ?X _ = _ => destruct X as [[fs1 off1]| | |] eqn:Ew end; simpl in H; try discriminate.
  - eapply IH; eauto.
  - inversion H; subst. destruct (d_coe dv).
    + destruct (0 <? a); [|discriminate]. destruct fi; [|inversion Ew; reflexivity].
      exfalso; eapply write_fmmu_noerr; eauto.
    + exfalso; eapply write_fmmu_noerr; eauto.
Qed.

Lemma cfg_pass_err d : forall ds off e, cfg_pass Debug d ds off = Err e -> e = ENoFmmu.
Proof.
  induction ds as [|s r IH]; simpl; intros off e H; [discriminate|].
  destruct (cfg_dev Debug (ds_desc s) d (ds_fmmus s) off) as [[[fs regs] off1]| | |] eqn:E; simpl in H; try discriminate.
  - destruct (cfg_pass Debug d r off1) as [[[r' ws'] off2]| | |] eqn:E2; simpl in H; try discriminate.
    inversion H; subst. eapply IH; eauto.
  - inversion H; subst. unfold cfg_dev in E. eapply cfg_sms_err; eauto.
Qed.

Theorem group_too_long_err start max dvs mx l :
  cfg_group Debug start max (map init_dev dvs) = Err (ETooLong mx l) -> mx = max /\ l = need dvs /\ max < need dvs.
Proof.
  unfold cfg_group, cfg_group_run. intros H.
  destruct (cfg_pass Debug DIn (map init_dev dvs) start) as [[[ds1 wi] off1]| | |] eqn:E1; simpl in H; try discriminate.
  2:{ inversion H; subst. apply cfg_pass_err in E1. discriminate. }
  destruct (cfg_pass Debug DOut ds1 off1) as [[[ds2 wo] off2]| | |] eqn:E2; simpl in H; try discriminate.
  2:{ inversion H; subst. apply cfg_pass_err in E2. discriminate. }
  destruct (max <? off2 - start) eqn:Em; [|discriminate]. inversion H; subst.
  apply cfg_pass_rel in E1. apply cfg_pass_rel in E2.
  pose proof (pass_rel_total' _ _ _ _ _ _ E1) as A. pose proof (pass_rel_total' _ _ _ _ _ _ E2) as B.
  pose proof (pass_rel_descs _ _ _ _ _ _ E1) as D.
  rewrite D in B. rewrite descs_init in A, B. unfold need. split; [reflexivity|]. split; lia.
Qed.

(* ---------- groups: start addresses are the running sum of the capacities ---------- *)
Fixpoint psums (off : N) (maxes : list N) : list N :=
  match maxes with [] => [] | mx :: r => off :: psums (off + mx) r end.

Lemma group_starts_psums : forall maxes off sts,
  group_starts Debug off maxes = Ok sts -> Forall (fun m => m < 65536) maxes -> sts = psums off maxes.
Proof.
  induction maxes as [|mx r IH]; simpl; intros off sts H Hm.
  - inversion H; reflexivity.
  - inversion Hm as [|x l Hx Hr]; subst.
    unfold ck32 in H. destruct (ckw 32 Debug 7 (off + mx mod 65536)) as [o| | |] eqn:E; simpl in H; try discriminate.
    apply ckw_debug in E. destruct E as [Eo _].
    destruct (group_starts Debug o r) as [rest| | |] eqn:E2; simpl in H; try discriminate.
    inversion H; subst sts. f_equal. apply IH in E2; [|exact Hr]. rewrite E2, Eo.
    rewrite (N.mod_small mx 65536 Hx). reflexivity.
Qed.

Lemma psums_ge : forall maxes off j sj, nth_error (psums off maxes) j = Some sj -> off <= sj.
Proof.
  induction maxes as [|mx r IH]; simpl; intros off j sj H; [destruct j; discriminate|].
  destruct j as [|j]; simpl in H; [inversion H; lia|]. apply IH in H. lia.
Qed.

Lemma psums_ordered : forall maxes off i j si sj mi, (i < j)%nat ->
  nth_error (psums off maxes) i = Some si -> nth_error maxes i = Some mi ->
  nth_error (psums off maxes) j = Some sj -> si + mi <= sj.
Proof.
  induction maxes as [|mx r IH]; simpl; intros off i j si sj mi Hij Hi Hmi Hj; [destruct i; discriminate|].
  destruct j as [|j]; [lia|]. simpl in Hj. destruct i as [|i]; simpl in Hi, Hmi.
  - inversion Hi; subst. inversion Hmi; subst. apply psums_ge in Hj. exact Hj.
  - eapply (IH _ i j); eauto. lia.
Qed.

(* images of different groups occupy disjoint logical address ranges *)
Theorem groups_disjoint maxes sts i j si sj mi :
  group_starts Debug 0 maxes = Ok sts -> Forall (fun m => m < 65536) maxes ->
  (i < j)%nat -> nth_error sts i = Some si -> nth_error maxes i = Some mi -> nth_error sts j = Some sj ->
  si + mi <= sj.
Proof.
  intros H Hm Hij Hi Hmi Hj. apply group_starts_psums in H; [|exact Hm]. subst sts.
  eapply psums_ordered; eauto.
Qed.

(* ---------- Release mode: identical wherever Debug does not panic ---------- *)
Definition np {A} (r : res perr A) : Prop := is_panic r = false.

Lemma ckw_rel w s v : np (ckw w Debug s v) -> ckw w Release s v = ckw w Debug s v.
Proof. unfold np, ckw. destruct (v <? 2 ^ w); simpl; [reflexivity|discriminate]. Qed.

Lemma np_bind {A B} (r : res perr A) (k : A -> res perr B) : np (rbind r k) -> np r /\ forall a, r = Ok a -> np (k a).
Proof. unfold np. destruct r; simpl; intros H; split; auto; try discriminate; intros a0 E; inversion E; subst; exact H. Qed.

Ltac rb H A B := apply np_bind in H; destruct H as [A B].

Lemma sum16_rel s l : forall acc, np (sum16 Debug s acc l) -> sum16 Release s acc l = sum16 Debug s acc l.
Proof.
  induction l as [|x r IH]; simpl; intros acc H; [reflexivity|]. rb H A B. unfold ck16 in *.
  rewrite (ckw_rel _ _ _ A). destruct (ckw 16 Debug s (acc + x)) eqn:E; simpl; try reflexivity. apply IH. apply B. reflexivity.
Qed.

Lemma pdo_bits_rel ov p : np (pdo_bits Debug ov p) -> pdo_bits Release ov p = pdo_bits Debug ov p.
Proof.
  unfold pdo_bits. intros H. rb H A B. rewrite (sum16_rel _ _ _ A).
  destruct (sum16 Debug 1 0 (p_bits p)) eqn:E; simpl; try reflexivity. unfold ck16. apply ckw_rel. apply B. reflexivity.
Qed.

Lemma sum_pdos_rel ov l : forall acc, np (sum_pdos Debug ov acc l) -> sum_pdos Release ov acc l = sum_pdos Debug ov acc l.
Proof.
  induction l as [|p r IH]; simpl; intros acc H; [reflexivity|]. rb H A B. rewrite (pdo_bits_rel _ _ A).
  destruct (pdo_bits Debug ov p) eqn:E; simpl; try reflexivity.
  specialize (B _ eq_refl). rb B C D. unfold ck16 in *. rewrite (ckw_rel _ _ _ C).
  destruct (ckw 16 Debug 3 (acc + a)) eqn:E2; simpl; try reflexivity. apply IH. apply D. reflexivity.
Qed.

Lemma bytes_of_rel b : np (bytes_of Debug b) -> bytes_of Release b = bytes_of Debug b.
Proof. unfold bytes_of. intros H. rb H A B. unfold ck16 in *. rewrite (ckw_rel _ _ _ A). reflexivity. Qed.

Lemma write_fmmu_rel d i s len bits fs off :
  np (write_fmmu Debug d i s len bits fs off) -> write_fmmu Release d i s len bits fs off = write_fmmu Debug d i s len bits fs off.
Proof.
  unfold write_fmmu. intros H. rb H A B.
  assert (X : (if f_en (fs i) then let? l := ck16 Release 5 (f_len (fs i) + len) in Ok (mkF (f_ls (fs i)) l (f_ps (fs i)) (f_rd (fs i)) (f_wr (fs i)) true)
               else Ok (mkF off len (sm_start s) match d with DIn => true | DOut => false end match d with DIn => false | DOut => true end true)) =
              (if f_en (fs i) then let? l := ck16 Debug 5 (f_len (fs i) + len) in Ok (mkF (f_ls (fs i)) l (f_ps (fs i)) (f_rd (fs i)) (f_wr (fs i)) true)
               else Ok (mkF off len (sm_start s) match d with DIn => true | DOut => false end match d with DIn => false | DOut => true end true))).
  { destruct (f_en (fs i)); [|reflexivity]. rb A A1 A2. unfold ck16 in *. rewrite (ckw_rel _ _ _ A1). reflexivity. }
  rewrite X. clear X.
  match goal with |- rbind ?R _ = _ => destruct R eqn:E; simpl; try reflexivity end.
  specialize (B _ eq_refl). rb B C D. rewrite (bytes_of_rel _ C).
  destruct (bytes_of Debug bits) eqn:E2; simpl; try reflexivity.
  specialize (D _ eq_refl). rb D F G. unfold ck32 in *. rewrite (ckw_rel _ _ _ F). reflexivity.
Qed.

Lemma cfg_sms_rel dv d fi : forall sms k st, np (cfg_sms Debug dv d fi k sms st) -> cfg_sms Release dv d fi k sms st = cfg_sms Debug dv d fi k sms st.
Proof.
  induction sms as [|s r IH]; intros k st H; [reflexivity|].
  cbn [cfg_sms] in *. destruct (sm_usage s =? sm_ty d); [|apply IH; exact H].
  rb H A B. unfold sm_bits in *. rewrite (sum_pdos_rel _ _ _ A).
  destruct (sum_pdos Debug (d_over dv) 0 (pdos_of dv d k)) eqn:E; simpl; try reflexivity.
  specialize (B _ eq_refl). rb B C D. rewrite (bytes_of_rel _ C).
  destruct (bytes_of Debug a) eqn:E2; simpl; try reflexivity.
  specialize (D _ eq_refl). destruct st as [[fs regs] off]. rb D F G.
  assert (X : (if d_coe dv then if 0 <? a then match fi with Some i => write_fmmu Release d i s a0 a fs off | None => Err ENoFmmu end else Ok (fs, off) else write_fmmu Release d k s a0 a fs off) =
              (if d_coe dv then if 0 <? a then match fi with Some i => write_fmmu Debug d i s a0 a fs off | None => Err ENoFmmu end else Ok (fs, off) else write_fmmu Debug d k s a0 a fs off)).
  { destruct (d_coe dv); [destruct (0 <? a); [destruct fi|]|]; try reflexivity; apply write_fmmu_rel; exact F. }
  rewrite X. clear X.
  match goal with |- rbind ?R _ = _ => destruct R as [[fs1 off1]| | |] eqn:E3; simpl; try reflexivity end.
  apply IH. apply (G _ eq_refl).
Qed.

Lemma cfg_pass_rel_mode d : forall ds off, np (cfg_pass Debug d ds off) -> cfg_pass Release d ds off = cfg_pass Debug d ds off.
Proof.
  induction ds as [|s r IH]; simpl; intros off H; [reflexivity|]. rb H A B. unfold cfg_dev in *.
  rewrite (cfg_sms_rel _ _ _ _ _ _ A).
  match goal with |- rbind ?R _ = _ => destruct R as [[[fs regs] off1]| | |] eqn:E; simpl; try reflexivity end.
  specialize (B _ eq_refl). simpl in B. rb B C D. rewrite (IH _ C). reflexivity.
Qed.

Theorem release_agrees start max ds :
  np (cfg_group Debug start max ds) -> cfg_group Release start max ds = cfg_group Debug start max ds.
Proof.
  unfold cfg_group, cfg_group_run. intros H. rb H A B. rb A C D. rewrite (cfg_pass_rel_mode _ _ _ C).
  destruct (cfg_pass Debug DIn ds start) as [[[ds1 wi] off1]| | |] eqn:E; simpl; try reflexivity.
  specialize (D _ eq_refl). simpl in D. rb D F G. rewrite (cfg_pass_rel_mode _ _ _ F). reflexivity.
Qed.

(* ---------- nothing outside the windows is mapped ---------- *)
Lemma chain_range d dv fs : forall l a e, chain d dv fs a l e ->
  forall k sm, In (k, sm) l -> f_en (fs k) = true /\ a <= f_ls (fs k) /\ f_ls (fs k) + f_len (fs k) <= e.
Proof.
  assert (Hmono : forall l a e, chain d dv fs a l e -> a <= e).
  { induction l as [|x r IH]; simpl; intros a e H; [lia|]. destruct H as [_ H]. apply IH in H. lia. }
  induction l as [|x r IH]; simpl; intros a e H k sm Hin; [contradiction|].
  destruct H as [Hf Hc]. destruct Hin as [Hin|Hin].
  - subst x. simpl in *. rewrite Hf. simpl. apply Hmono in Hc. split; [reflexivity|]. lia.
  - destruct (IH _ _ Hc _ _ Hin) as [A [B C]]. split; [exact A|]. lia.
Qed.

Lemma fmap_outside f la lo hi : lo <= f_ls f -> f_ls f + f_len f <= hi -> ~ (lo <= la /\ la < hi) -> fmap f la = None.
Proof.
  intros A B C. unfold fmap. destruct (f_en f); simpl; [|reflexivity].
  destruct ((f_ls f <=? la) && (la <? f_ls f + f_len f)) eqn:E; [|reflexivity]. exfalso. apply C. lia.
Qed.

Lemma in_fst_dec (l : list (nat * smd)) j : (exists sm, In (j, sm) l) \/ (forall sm, ~ In (j, sm) l).
Proof.
  induction l as [|[k s] r IH]; [right; intros sm H; exact H|].
  destruct (Nat.eq_dec k j) as [->|Hne]; [left; exists s; left; reflexivity|].
  destruct IH as [[sm H]|H]; [left; exists sm; right; exact H|].
  right. intros sm [X|X]; [inversion X; contradiction|exact (H sm X)].
Qed.

Theorem nowhere_else dv fs regs win wout la :
  dev_post dv fs regs win wout ->
  ~ (fst win <= la /\ la < snd win) -> ~ (fst wout <= la /\ la < snd wout) ->
  forall j, fmap (fs j) la = None.
Proof.
  intros [Hw1 [Hw2 [_ [Hmap Hrest]]]] Ho1 Ho2 j.
  assert (F0 : fmap fmmu0 la = None) by reflexivity.
  destruct (d_coe dv) eqn:Hcoe.
  - destruct Hmap as [Ci Co]. unfold coe_dir in Ci, Co.
    assert (Dec : forall d, used_by dv d j \/ ~ used_by dv d j).
    { intros d. unfold used_by. rewrite Hcoe. destruct (first_data dv d (pdl dv d)); [|right; intros [X _]; apply X; reflexivity].
      destruct (fidx dv d) as [i|]; [|right; intros [_ X]; discriminate].
      destruct (Nat.eq_dec i j) as [->|Hne]; [left; split; [discriminate|reflexivity]|right; intros [_ X]; inversion X; contradiction]. }
    destruct (Dec DIn) as [U1|U1].
    + unfold used_by in U1. rewrite Hcoe in U1. destruct U1 as [U1 U2].
      destruct (first_data dv DIn (pdl dv DIn)); [|contradiction]. destruct Ci as [i [Hi Hf]]. rewrite Hi in U2. inversion U2; subst.
      rewrite Hf. apply (fmap_outside _ _ (fst win) (snd win)); simpl; try lia; try exact Ho1.
    + destruct (Dec DOut) as [U2|U2]; [|rewrite (Hrest j U1 U2); exact F0].
      unfold used_by in U2. rewrite Hcoe in U2. destruct U2 as [U2 U3].
      destruct (first_data dv DOut (pdl dv DOut)); [|contradiction]. destruct Co as [i [Hi Hf]]. rewrite Hi in U3. inversion U3; subst.
      rewrite Hf. apply (fmap_outside _ _ (fst wout) (snd wout)); simpl; try lia; try exact Ho2.
  - destruct Hmap as [Ci Co].
    destruct (in_fst_dec (pdl dv DIn) j) as [[sm Hin]|N1].
    + destruct (chain_range _ _ _ _ _ _ Ci _ _ Hin) as [_ [A B]]. apply (fmap_outside _ _ (fst win) (snd win)); auto.
    + destruct (in_fst_dec (pdl dv DOut) j) as [[sm Hin]|N2].
      * destruct (chain_range _ _ _ _ _ _ Co _ _ Hin) as [_ [A B]]. apply (fmap_outside _ _ (fst wout) (snd wout)); auto.
      * rewrite Hrest; [exact F0| |]; unfold used_by; rewrite Hcoe; intros [sm X]; [exact (N1 sm X)|exact (N2 sm X)].
Qed.

(* ---------- concrete instances: the theorems are not vacuous, and the known findings ---------- *)
(* an EEPROM-configured device with two scattered input sync managers and one output sync manager,
   and a CoE device with one of each *)
Definition ex_io : devd :=
  mkDev false [mkSm 3 4352 true 100; mkSm 4 4360 true 32; mkSm 4 4400 true 32] [1; 2; 2]
        [mkPdo 5632 0 [8; 8; 1]] [mkPdo 6656 1 [16]; mkPdo 6657 2 [3; 3]; mkPdo 6658 2 [64]] [(6657, 2)].
Definition ex_coe : devd :=
  mkDev true [mkSm 1 4096 true 38; mkSm 2 4224 true 34; mkSm 3 4352 true 100; mkSm 4 4608 true 32] [1; 2; 3]
        [mkPdo 5632 2 [8; 8]] [mkPdo 6656 3 [32]] [].

Example ex_group_ok :
  obs_group Debug 96 64 [ex_io; ex_coe] =
  (0 :: 21 :: 16 :: [0; 12; 12; 4] ++ [-7] ++ [16; 3; 19; 2] ++ [-7] ++
   concat (map obs_fmmu [mkF 112 3 4352 false true true; mkF 96 2 4360 true false true; mkF 98 10 4400 true false true]) ++ concat (map obs_fmmu (repeat fmmu0 13)) ++ [-8] ++
   [1; 4360; 2; 32; 1; 2; 4400; 10; 32; 1; 0; 4352; 3; 100; 1] ++ [-9] ++
   concat (map obs_fmmu [mkF 115 2 4352 false true true; mkF 108 4 4608 true false true]) ++ concat (map obs_fmmu (repeat fmmu0 14)) ++ [-8] ++
   [3; 4608; 4; 32; 1; 2; 4352; 2; 100; 1] ++ [-9])%Z.
Proof. vm_compute. reflexivity. Qed.

(* known finding: a CoE device with two data-carrying input sync managers that are not adjacent in
   its memory: the single shared FMMU sends the second window's bytes to the wrong memory *)
Definition ex_coe2 : devd :=
  mkDev true [mkSm 1 4096 true 38; mkSm 2 4224 true 34; mkSm 4 4352 true 32; mkSm 4 4400 true 32] [1; 2; 3]
        [] [mkPdo 6656 2 [16]; mkPdo 6657 3 [8]] [].

Theorem coe_shared_fmmu_refuted :
  exists g s, cfg_group Debug 0 64 (map init_dev [ex_coe2]) = Ok g /\ g_devs g = [s] /\ g_in g = [(0, 3)] /\
    (* byte 2 of the window belongs to the sync manager at 4400 ... *)
    slen ex_coe2 DIn 2 = 2 /\ slen ex_coe2 DIn 3 = 1 /\
    (* ... but is read from 4354 *)
    targets true (ds_fmmus s) 2 = [4354] /\ ~ adjacent ex_coe2 DIn 4352 (pdl ex_coe2 DIn).
Proof.
  eexists. eexists. split; [vm_compute; reflexivity|]. split; [reflexivity|]. split; [reflexivity|].
  split; [reflexivity|]. split; [reflexivity|]. split; [vm_compute; reflexivity|].
  vm_compute. intros [_ [H _]]. discriminate.
Qed.

(* known finding: a group whose layout exceeds its capacity is reported as an error only after its
   devices have been programmed: the FMMU left behind reaches beyond the group's address range *)
Definition ex_big : devd :=
  mkDev false [mkSm 4 4352 true 32] [2] [] [mkPdo 6656 0 [64; 64; 64; 64]] [].

Theorem too_long_leftover_refuted :
  cfg_group Debug 0 24 (map init_dev [ex_big]) = Err (ETooLong 24 32) /\
  exists ds wi wo o1 o2 s, cfg_group_run Debug 0 (map init_dev [ex_big]) = Ok (ds, wi, wo, o1, o2) /\ ds = [s] /\
    fmap (ds_fmmus s 0%nat) 30 = Some 4382.
Proof.
  split; [vm_compute; reflexivity|]. do 6 eexists. split; [vm_compute; reflexivity|]. split; [reflexivity|]. vm_compute. reflexivity.
Qed.

(* ---------- tie to the declarations generated from the sources ---------- *)
From EC Require Import Wire.Layout Gen.SrcLayouts.

(* the register images the master writes have the ETG.1000.4 shapes the device side of the model
   (and the simulator) reads: FMMU entity (Table 56) and sync manager channel (Table 58) *)
Lemma fmmu_register_layout :
  match place layout_Fmmu with
  | Ok ps => map (fun p => (pstart p, pbits p)) ps =
             [(0, 32); (32, 16); (48, 3); (56, 3); (64, 16); (80, 3); (88, 1); (89, 1); (96, 1)]
  | _ => False
  end /\ lwidth layout_Fmmu = 128.
Proof. vm_compute. split; reflexivity. Qed.

Lemma sm_register_layout :
  match place layout_SyncManagerChannel with
  | Ok ps => map (fun p => (pstart p, pbits p)) ps = [(0, 16); (16, 16); (32, 8); (40, 8); (48, 16)]
  | _ => False
  end /\ lwidth layout_SyncManagerChannel = 64.
Proof. vm_compute. split; reflexivity. Qed.

(* the usage codes the model filters on are the discriminants declared in src/eeprom/types.rs:
   SyncManagerType {.., ProcessDataWrite = 3, ProcessDataRead = 4}, FmmuUsage {.., Outputs = 1, Inputs = 2} *)
Lemma usage_codes :
  map vdisc (evariants enum_SyncManagerType) = [Some 0; Some 1; Some 2; Some (Z.of_N (sm_ty DOut)); Some (Z.of_N (sm_ty DIn))]%Z /\
  map vdisc (evariants enum_FmmuUsage) = [Some 0; Some (Z.of_N (fm_ty DOut)); Some (Z.of_N (fm_ty DIn)); Some 3]%Z.
Proof. vm_compute. split; reflexivity. Qed.

(* ---------- which FMMU answers which logical byte on a configured EEPROM-path device ---------- *)
Lemma chain_fmmu d dv fs : forall l a e, chain d dv fs a l e ->
  forall k sm, In (k, sm) l -> exists a', a <= a' /\ a' + slen dv d k <= e /\
    fs k = new_fmmu d a' (slen dv d k) (sm_start sm).
Proof.
  assert (Hmono : forall l a e, chain d dv fs a l e -> a <= e).
  { induction l as [|x r IH]; simpl; intros a e H; [lia|]. destruct H as [_ H]. apply IH in H. lia. }
  induction l as [|x r IH]; simpl; intros a e H k sm Hin; [contradiction|].
  destruct H as [Hf Hc]. destruct Hin as [Hin|Hin].
  - subst x. simpl in *. exists a. split; [lia|]. split; [apply Hmono in Hc; lia|exact Hf].
  - destruct (IH _ _ Hc k sm Hin) as [a' [H1 [H2 H3]]]. exists a'. split; [lia|]. split; [exact H2|exact H3].
Qed.

Definition flag (rd : bool) (f : fmmu) : bool := if rd then f_rd f else f_wr f.
Definition dir_of (rd : bool) : dir := if rd then DIn else DOut.

Lemma targets_in rd fs la p :
  In p (targets rd fs la) <-> exists j, (j < 16)%nat /\ flag rd (fs j) = true /\ fmap (fs j) la = Some p.
Proof.
  unfold targets, flist. rewrite in_flat_map. split.
  - intros [f [Hf Hp]]. apply in_map_iff in Hf. destruct Hf as [j [<- Hj]]. apply in_seq in Hj.
    exists j. split; [lia|]. unfold flag. destruct rd.
    + destruct (f_rd (fs j)); [|contradiction]. destruct (fmap (fs j) la); [|contradiction]. destruct Hp as [->|[]]. auto.
    + destruct (f_wr (fs j)); [|contradiction]. destruct (fmap (fs j) la); [|contradiction]. destruct Hp as [->|[]]. auto.
  - intros [j [Hj [Hf Hm]]]. exists (fs j). split; [apply in_map; apply in_seq; lia|].
    unfold flag in Hf. destruct rd; rewrite Hf, Hm; left; reflexivity.
Qed.

(* every FMMU that answers at all is the FMMU of one process-data sync manager of that direction *)
Lemma answering_fmmu dv fs regs win wout rd j la p :
  dev_post dv fs regs win wout -> d_coe dv = false ->
  flag rd (fs j) = true -> fmap (fs j) la = Some p ->
  let d := dir_of rd in let w := if rd then win else wout in
  exists sm a', In (j, sm) (pdl dv d) /\ fst w <= a' /\ a' + slen dv d j <= snd w /\
    fs j = new_fmmu d a' (slen dv d j) (sm_start sm) /\ a' <= la /\ la < a' + slen dv d j /\ p = sm_start sm + (la - a').
Proof.
  intros [Hw1 [Hw2 [_ [Hmap Hrest]]]] Hcoe Hfl Hm. rewrite Hcoe in Hmap. destruct Hmap as [Ci Co].
  assert (Inv : forall d' a' sm, fs j = new_fmmu d' a' (slen dv d' j) (sm_start sm) ->
            d' = dir_of rd /\ a' <= la /\ la < a' + slen dv d' j /\ p = sm_start sm + (la - a')).
  { intros d' a' sm E. rewrite E in Hfl, Hm. unfold fmap, new_fmmu in Hm. cbn in Hm.
    destruct ((a' <=? la) && (la <? a' + slen dv d' j)) eqn:R; [|discriminate]. inversion Hm; subst.
    split; [|split; [lia|split; [lia|reflexivity]]].
    unfold flag, new_fmmu in Hfl. destruct rd, d'; cbn in Hfl; try discriminate; reflexivity. }
  destruct (in_fst_dec (pdl dv DIn) j) as [[sm Hin]|N1].
  - destruct (chain_fmmu _ _ _ _ _ _ Ci _ _ Hin) as [a' [A [B E]]].
    destruct (Inv _ _ _ E) as [Hd [L1 [L2 Hp]]]. destruct rd; cbn in Hd; [|discriminate].
    exists sm, a'. cbn. repeat split; auto.
  - destruct (in_fst_dec (pdl dv DOut) j) as [[sm Hin]|N2].
    + destruct (chain_fmmu _ _ _ _ _ _ Co _ _ Hin) as [a' [A [B E]]].
      destruct (Inv _ _ _ E) as [Hd [L1 [L2 Hp]]]. destruct rd; cbn in Hd; [discriminate|].
      exists sm, a'. cbn. repeat split; auto.
    + exfalso. rewrite Hrest in Hm; [discriminate| |]; unfold used_by; rewrite Hcoe; intros [sm X]; [exact (N1 sm X)|exact (N2 sm X)].
Qed.

(* the sync managers' memory areas of one direction do not overlap (a sane device description) *)
Definition areas_disjoint (dv : devd) (d : dir) : Prop :=
  forall k sm k' sm', In (k, sm) (pdl dv d) -> In (k', sm') (pdl dv d) -> k <> k' ->
    sm_start sm + slen dv d k <= sm_start sm' \/ sm_start sm' + slen dv d k' <= sm_start sm.

Lemma pdl_functional dv d k sm sm' : In (k, sm) (pdl dv d) -> In (k, sm') (pdl dv d) -> sm = sm'.
Proof.
  unfold pdl. intros H1 H2. apply pd_sms_spec in H1. apply pd_sms_spec in H2.
  destruct H1 as [A _]. destruct H2 as [A' _]. rewrite A in A'. inversion A'; reflexivity.
Qed.

Lemma pdl_index_bound dv d k sm : In (k, sm) (pdl dv d) -> (k < length (d_sms dv))%nat.
Proof.
  unfold pdl. intros H. apply pd_sms_spec in H. destruct H as [A _]. rewrite Nat.sub_0_r in A.
  apply nth_error_Some. rewrite A. discriminate.
Qed.

Lemma chain_subwindows_apart d dv fs : forall l a e, chain d dv fs a l e ->
  forall k sm k' sm', In (k, sm) l -> In (k', sm') l -> k <> k' ->
    f_ls (fs k) + slen dv d k <= f_ls (fs k') \/ f_ls (fs k') + slen dv d k' <= f_ls (fs k).
Proof.
  induction l as [|x r IH]; simpl; intros a e H k sm k' sm' H1 H2 Hne; [contradiction|].
  destruct H as [Hf Hc].
  destruct H1 as [H1|H1]; destruct H2 as [H2|H2].
  - subst x. inversion H2; subst. contradiction.
  - subst x. simpl in *. destruct (chain_fmmu _ _ _ _ _ _ Hc _ _ H2) as [a'' [A [_ E]]].
    left. rewrite Hf, E. cbn. lia.
  - subst x. simpl in *. destruct (chain_fmmu _ _ _ _ _ _ Hc _ _ H1) as [a'' [A [_ E]]].
    right. rewrite Hf, E. cbn. lia.
  - eapply IH; eauto.
Qed.
