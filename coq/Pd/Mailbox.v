(* C08/C09: configure_mailbox_sms (src/subdevice/configuration.rs): which sync managers are
   programmed as mailboxes during INIT -> PRE-OP, with what, and whether the SubDevice counts as a
   CoE device afterwards (which decides how its PDOs are found later).  Model and its (short)
   theorems. *)
From EC Require Import Base.Prelude Base.Bytes Pd.Layout.
Local Open Scope N_scope.

(* default mailbox settings of the EEPROM (words 0x18..0x1C) *)
Record mbxd := mkM { m_rx_off : N; m_rx_size : N; m_tx_off : N; m_tx_size : N; m_protocols : N }.

(* DefaultMailbox::has_mailbox, as written (&& binds tighter than ||) *)
Definition has_mailbox (m : mbxd) : bool :=
  (negb (m_protocols m =? 0) && (0 <? m_rx_size m)) || (0 <? m_tx_size m).

(* SyncManagerType: 1 = MailboxWrite (master -> device), 2 = MailboxRead *)
Fixpoint mbx_regs_go (m : mbxd) (k : nat) (sms : list smd) : list (nat * smreg) :=
  match sms with
  | [] => []
  | sm :: r =>
    let rest := mbx_regs_go m (S k) r in
    if sm_usage sm =? 1 then (k, mkR (sm_start sm) (m_rx_size m) (sm_ctl sm) (sm_en sm && (0 <? m_rx_size m))) :: rest
    else if sm_usage sm =? 2 then (k, mkR (sm_start sm) (m_tx_size m) (sm_ctl sm) (sm_en sm && (0 <? m_tx_size m))) :: rest
    else rest
  end.

Definition mbx_regs (m : option mbxd) (sms : list smd) : list (nat * smreg) :=
  match m with
  | Some mb => if has_mailbox mb then mbx_regs_go mb 0 sms else []
  | None => []          (* all-zero mailbox words: no mailbox *)
  end.

(* MailboxConfig::has_coe: CoE among the protocols and a read mailbox of non-zero length *)
Definition has_coe (m : option mbxd) (sms : list smd) : bool :=
  match m with
  | Some mb => has_mailbox mb && N.testbit (m_protocols mb) 2 &&
               existsb (fun sm => sm_usage sm =? 2) sms && (0 <? m_tx_size mb)
  | None => false
  end.

Definition obs_mbx (m : option mbxd) (sms : list smd) : list Z :=
  (if has_coe m sms then 1 else 0)%Z :: concat (map obs_reg (mbx_regs m sms)).

(* every mailbox sync manager is programmed with its EEPROM start address and the mailbox length of
   its direction, and only mailbox sync managers are touched *)
Lemma mbx_regs_go_spec m : forall sms k j r, In (j, r) (mbx_regs_go m k sms) ->
  exists sm, nth_error sms (j - k) = Some sm /\ (k <= j)%nat /\ r_start r = sm_start sm /\ r_ctl r = sm_ctl sm /\
    ((sm_usage sm = 1 /\ r_len r = m_rx_size m) \/ (sm_usage sm = 2 /\ r_len r = m_tx_size m)).
Proof.
  induction sms as [|sm rest IH]; intros k j r H; [contradiction|]. cbn [mbx_regs_go] in H.
  assert (Tail : In (j, r) (mbx_regs_go m (S k) rest) ->
    exists sm0, nth_error (sm :: rest) (j - k) = Some sm0 /\ (k <= j)%nat /\ r_start r = sm_start sm0 /\ r_ctl r = sm_ctl sm0 /\
      ((sm_usage sm0 = 1 /\ r_len r = m_rx_size m) \/ (sm_usage sm0 = 2 /\ r_len r = m_tx_size m))).
  { intros X. destruct (IH _ _ _ X) as [sm0 [A [B C]]]. exists sm0. replace (j - k)%nat with (S (j - S k)) by lia. cbn [nth_error].
    split; [exact A|]. split; [lia|exact C]. }
  destruct (sm_usage sm =? 1) eqn:E1.
  - destruct H as [H|H]; [|apply Tail; exact H]. inversion H; subst. exists sm. rewrite Nat.sub_diag. cbn.
    repeat split; auto. left. split; [lia|reflexivity].
  - destruct (sm_usage sm =? 2) eqn:E2.
    + destruct H as [H|H]; [|apply Tail; exact H]. inversion H; subst. exists sm. rewrite Nat.sub_diag. cbn.
      repeat split; auto. right. split; [lia|reflexivity].
    + apply Tail; exact H.
Qed.

Theorem mailbox_registers m sms j r : In (j, r) (mbx_regs m sms) ->
  exists mb sm, m = Some mb /\ nth_error sms j = Some sm /\ r_start r = sm_start sm /\ r_ctl r = sm_ctl sm /\
    ((sm_usage sm = 1 /\ r_len r = m_rx_size mb) \/ (sm_usage sm = 2 /\ r_len r = m_tx_size mb)).
Proof.
  unfold mbx_regs. destruct m as [mb|]; [|contradiction]. destruct (has_mailbox mb); [|contradiction].
  intros H. destruct (mbx_regs_go_spec mb _ _ _ _ H) as [sm [A [_ C]]]. rewrite Nat.sub_0_r in A.
  exists mb, sm. split; [reflexivity|]. split; [exact A|exact C].
Qed.

(* a SubDevice counts as a CoE device only if it announces CoE and has a read mailbox to answer in *)
Theorem coe_needs_mailbox m sms : has_coe m sms = true ->
  exists mb, m = Some mb /\ N.testbit (m_protocols mb) 2 = true /\ 0 < m_tx_size mb /\
    exists sm, In sm sms /\ sm_usage sm = 2.
Proof.
  unfold has_coe. destruct m as [mb|]; [|discriminate]. intros H.
  apply andb_true_iff in H. destruct H as [H H4]. apply andb_true_iff in H. destruct H as [H H3]. apply andb_true_iff in H. destruct H as [H1 H2].
  exists mb. split; [reflexivity|]. split; [exact H2|]. split; [lia|].
  apply existsb_exists in H3. destruct H3 as [sm [A B]]. exists sm. split; [exact A|lia].
Qed.
