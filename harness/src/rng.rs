/// splitmix64: every random choice of a campaign derives from one of these.
#[derive(Clone)]
pub struct Rng(pub u64);

impl Rng {
    pub fn new(seed: u64) -> Self {
        Rng(seed.wrapping_mul(0x9E3779B97F4A7C15).wrapping_add(0x1234_5678_9abc_def1))
    }
    pub fn next(&mut self) -> u64 {
        self.0 = self.0.wrapping_add(0x9E3779B97F4A7C15);
        let mut z = self.0;
        z = (z ^ (z >> 30)).wrapping_mul(0xBF58476D1CE4E5B9);
        z = (z ^ (z >> 27)).wrapping_mul(0x94D049BB133111EB);
        z ^ (z >> 31)
    }
    /// uniform in 0..n (n > 0)
    pub fn below(&mut self, n: u64) -> u64 {
        self.next() % n
    }
    pub fn range(&mut self, lo: u64, hi_incl: u64) -> u64 {
        lo + self.below(hi_incl - lo + 1)
    }
    pub fn chance(&mut self, num: u64, den: u64) -> bool {
        self.below(den) < num
    }
    pub fn byte(&mut self) -> u8 {
        self.next() as u8
    }
    pub fn bytes(&mut self, n: usize) -> Vec<u8> {
        (0..n).map(|_| self.byte()).collect()
    }
    pub fn pick<'a, T>(&mut self, xs: &'a [T]) -> &'a T {
        &xs[self.below(xs.len() as u64) as usize]
    }
    /// boundary-heavy u64: small, near powers of two, or random
    pub fn edgy(&mut self, bits: u32) -> u64 {
        let max = if bits >= 64 { u64::MAX } else { (1u64 << bits) - 1 };
        match self.below(6) {
            0 => self.below(4).min(max),
            1 => max - self.below(4).min(max),
            2 => {
                let k = self.below(bits as u64) as u32;
                let b = 1u64 << k;
                let d = self.below(3);
                (b.wrapping_add(d).wrapping_sub(1)) & max
            }
            _ => self.next() & max,
        }
    }
}
