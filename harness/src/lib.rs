//! Shared pieces of the correspondence harness: virtual clock, single-threaded executor that
//! runs the real MainDevice against a scripted wire, PRNG, Gallina literal printers.
pub mod clock;
pub mod gal;
pub mod net;
pub mod rng;
pub mod sim;
