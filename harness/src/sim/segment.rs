//! The simulated wire: a tree of devices, frame codec, datagram execution in ring order, timing
//! model for distributed clocks, scriptable faults and the datagram log.
use super::device::{Ctx, Device};
use crate::net::Wire;
use std::collections::VecDeque;

pub const CMD_NOP: u8 = 0;
pub const CMD_APRD: u8 = 1;
pub const CMD_APWR: u8 = 2;
pub const CMD_APRW: u8 = 3;
pub const CMD_FPRD: u8 = 4;
pub const CMD_FPWR: u8 = 5;
pub const CMD_FPRW: u8 = 6;
pub const CMD_BRD: u8 = 7;
pub const CMD_BWR: u8 = 8;
pub const CMD_BRW: u8 = 9;
pub const CMD_LRD: u8 = 10;
pub const CMD_LWR: u8 = 11;
pub const CMD_LRW: u8 = 12;
pub const CMD_ARMW: u8 = 13;
pub const CMD_FRMW: u8 = 14;

/// Where a device hangs: on `port` (1, 2 or 3) of `parent`, `delay_ns` one-way cable delay.
#[derive(Clone, Debug, PartialEq)]
pub struct Link {
    pub parent: usize,
    pub port: u8,
    pub delay_ns: u32,
}

/// One datagram as executed by the segment.
#[derive(Clone, Debug, PartialEq)]
pub struct DgramLog {
    pub frame: u64,
    /// Position of the datagram inside its frame.
    pub pos: usize,
    pub cmd: u8,
    pub idx: u8,
    /// ADP / ADO as sent (for logical commands: low / high half of the address).
    pub adp: u16,
    pub ado: u16,
    pub adp_after: u16,
    pub len: u16,
    pub before: Vec<u8>,
    pub after: Vec<u8>,
    pub wkc_before: u16,
    pub wkc: u16,
}

impl DgramLog {
    pub fn logical_addr(&self) -> u32 {
        self.adp as u32 | (self.ado as u32) << 16
    }
}

#[derive(Clone, Debug, PartialEq)]
pub enum Fault {
    /// The frame vanishes. `after_processing`: the devices still saw it (reply lost) or not.
    LoseFrame { frame: u64, after_processing: bool },
    /// A stale copy of the reply to `frame` is delivered *instead of* the reply to `frame + 1`
    /// (the only way to deliver a duplicate through `net::Wire`, which returns one frame).
    DuplicateReplaceNext { frame: u64 },
    /// A copy of the reply to `frame` is put into `Segment::extra_replies` for the caller to
    /// deliver itself.
    DuplicateExtra { frame: u64 },
    /// Working counter of datagram `datagram` of frame `frame` is changed by `delta`.
    Wkc { frame: u64, datagram: usize, delta: i32 },
    /// Device loses power after frame `after_frame` has been processed.
    DropOut { device: usize, after_frame: u64 },
}

/// Result of following one frame through the tree (times relative to the frame leaving the
/// master, in ns).
#[derive(Clone, Debug, Default)]
pub struct Trace {
    /// Powered devices in processing order.
    pub ring: Vec<usize>,
    /// Arrival time at each port of each device (index = device index).
    pub t_port: Vec<[Option<u64>; 4]>,
    /// Time the frame is back at the master.
    pub t_return: u64,
}

struct Dgram {
    off: usize,
    cmd: u8,
    adp: u16,
    ado: u16,
    data: Vec<u8>,
    wkc: u16,
}

pub type PreHook = Box<dyn FnMut(&mut Segment, u64)>;
pub type PostHook = Box<dyn FnMut(&mut Segment, u64, &mut Option<Vec<u8>>)>;

pub struct Segment {
    pub devices: Vec<Device>,
    /// `links[i]` = where device `i` is attached; `None` = directly at the master (the root).
    pub links: Vec<Option<Link>>,
    pub master_link_delay_ns: u32,
    /// Virtual time consumed by every exchanged frame (advances `clock`), default 10 us. With 0
    /// and a zero `wait_loop_delay` a stalled poll loop of the master never times out.
    pub frame_time_us: u64,
    /// True time (ns) at virtual clock 0.
    pub base_time_ns: u64,
    /// Number of frames exchanged so far = number of the next frame.
    pub frame_no: u64,
    pub faults: Vec<Fault>,
    /// Called before a frame is processed (frame number as argument).
    pub pre_exchange: Option<PreHook>,
    /// Called with the reply about to be returned.
    pub post_exchange: Option<PostHook>,
    pub log: Vec<DgramLog>,
    pub log_enabled: bool,
    /// Oldest entries are dropped beyond this many.
    pub log_limit: usize,
    pub extra_replies: VecDeque<Vec<u8>>,
    stale: Option<Vec<u8>>,
    pub last_trace: Trace,
    /// Malformed frames and the like.
    pub violations: Vec<String>,
}

impl Segment {
    /// A line: device i+1 hangs on port 1 of device i.
    pub fn chain(devices: Vec<Device>) -> Segment {
        let parents: Vec<Option<(usize, u8)>> = (0..devices.len()).map(|i| if i == 0 { None } else { Some((i - 1, 1)) }).collect();
        Segment::tree(devices, &parents)
    }

    /// A tree: `parents[i] = Some((parent index, parent port))`, exactly one `None` (the root).
    /// Device order in `devices` is free; the ring order is the depth-first order 0 -> 3 -> 1 -> 2.
    pub fn tree(devices: Vec<Device>, parents: &[Option<(usize, u8)>]) -> Segment {
        assert_eq!(devices.len(), parents.len());
        let links = parents.iter().map(|p| p.map(|(parent, port)| Link { parent, port, delay_ns: 100 })).collect();
        let mut s = Segment {
            devices,
            links,
            master_link_delay_ns: 500,
            frame_time_us: 10,
            base_time_ns: 1_000_000_000,
            frame_no: 0,
            faults: vec![],
            pre_exchange: None,
            post_exchange: None,
            log: vec![],
            log_enabled: true,
            log_limit: 200_000,
            extra_replies: VecDeque::new(),
            stale: None,
            last_trace: Trace::default(),
            violations: vec![],
        };
        s.validate();
        s.last_trace = s.trace();
        s.update_ports();
        s
    }

    fn validate(&self) {
        if self.devices.is_empty() {
            return;
        }
        assert_eq!(self.links.iter().filter(|l| l.is_none()).count(), 1, "exactly one root device");
        for (i, l) in self.links.iter().enumerate() {
            if let Some(l) = l {
                assert!((1..=3).contains(&l.port) && l.parent < self.devices.len() && l.parent != i, "bad link of device {}", i);
                let same = self.links.iter().flatten().filter(|o| o.parent == l.parent && o.port == l.port).count();
                assert_eq!(same, 1, "two devices on port {} of device {}", l.port, l.parent);
            }
        }
        let mut all = vec![false; self.devices.len()];
        self.walk_all(self.root().unwrap(), &mut all);
        assert!(all.iter().all(|v| *v), "topology is not a tree");
    }
    fn walk_all(&self, d: usize, seen: &mut Vec<bool>) {
        assert!(!seen[d], "cycle in topology");
        seen[d] = true;
        for c in self.children(d).into_iter().flatten() {
            self.walk_all(c, seen);
        }
    }

    pub fn root(&self) -> Option<usize> {
        self.links.iter().position(|l| l.is_none())
    }

    /// Children on ports [0 (never), 1, 2, 3] of device `d`.
    pub fn children(&self, d: usize) -> [Option<usize>; 4] {
        let mut c = [None; 4];
        for (i, l) in self.links.iter().enumerate() {
            if let Some(l) = l {
                if l.parent == d {
                    c[l.port as usize] = Some(i);
                }
            }
        }
        c
    }

    pub fn set_link_delay(&mut self, device: usize, delay_ns: u32) {
        match &mut self.links[device] {
            Some(l) => l.delay_ns = delay_ns,
            None => self.master_link_delay_ns = delay_ns,
        }
    }

    /// Follow a frame through the tree (relative times).
    pub fn trace(&self) -> Trace {
        let mut tr = Trace { ring: vec![], t_port: vec![[None; 4]; self.devices.len()], t_return: 0 };
        if let Some(r) = self.root() {
            let d = self.master_link_delay_ns as u64;
            tr.t_return = self.visit(r, d, &mut tr) + d;
        }
        tr
    }
    fn visit(&self, d: usize, t_in: u64, tr: &mut Trace) -> u64 {
        let dev = &self.devices[d];
        let mut t = t_in;
        if dev.powered {
            tr.t_port[d][0] = Some(t_in);
            tr.ring.push(d);
            t += dev.dc.proc_delay_ns as u64;
        }
        let ch = self.children(d);
        for port in [3usize, 1, 2] {
            if let Some(c) = ch[port] {
                let ld = self.links[c].as_ref().unwrap().delay_ns as u64;
                let back = self.visit(c, t + ld, tr) + ld;
                if dev.powered {
                    tr.t_port[d][port] = Some(back);
                    t = back + dev.dc.fwd_delay_ns as u64;
                } else {
                    t = back;
                }
            }
        }
        t
    }

    /// Powered devices in frame processing order (what auto-increment addressing sees).
    pub fn ring(&self) -> Vec<usize> {
        self.trace().ring
    }
    /// Ground truth: the powered device whose port the frame leaves to reach `d` (skips unpowered
    /// ancestors). `None` for the first device.
    pub fn true_parent(&self, d: usize) -> Option<usize> {
        let mut cur = self.links[d].as_ref().map(|l| l.parent);
        while let Some(p) = cur {
            if self.devices[p].powered {
                return Some(p);
            }
            cur = self.links[p].as_ref().map(|l| l.parent);
        }
        None
    }
    /// Ground truth: the first DC capable device in ring order (the master's reference clock).
    pub fn dc_reference(&self) -> Option<usize> {
        self.ring().into_iter().find(|d| self.devices[*d].has_dc())
    }
    /// Ground truth: one-way propagation delay (ns) from the DC reference device's port 0 to
    /// `d`'s port 0. Negative for devices before the reference.
    pub fn true_delay_from_reference(&self, d: usize) -> Option<i64> {
        let tr = self.trace();
        let r = self.dc_reference()?;
        Some(tr.t_port[d][0]? as i64 - tr.t_port[r][0]? as i64)
    }

    fn update_ports(&mut self) {
        for d in 0..self.devices.len() {
            let ch = self.children(d);
            let open = [true, ch[1].is_some(), ch[2].is_some(), ch[3].is_some()];
            if self.devices[d].open_ports != open {
                self.devices[d].set_ports(open);
            }
        }
    }

    /// True time (ns) "now".
    pub fn now_ns(&self) -> u64 {
        self.base_time_ns + crate::clock::now_us() * 1000
    }

    /// Datagram log entries of one frame.
    pub fn frame_log(&self, frame: u64) -> Vec<&DgramLog> {
        self.log.iter().filter(|l| l.frame == frame).collect()
    }

    fn passthrough(frame: &[u8]) -> Vec<u8> {
        let mut r = frame.to_vec();
        if r.len() > 6 {
            r[6] |= 0x02;
        }
        r
    }

    fn parse(&mut self, frame: &[u8]) -> Option<Vec<Dgram>> {
        if frame.len() < 16 || frame[12] != 0x88 || frame[13] != 0xA4 {
            return None;
        }
        let hdr = u16::from_le_bytes([frame[14], frame[15]]);
        if hdr >> 12 != 1 {
            return None;
        }
        let end = 16 + (hdr & 0x07ff) as usize;
        if end > frame.len() {
            self.violations.push(format!("frame {}: EtherCAT length {} exceeds frame", self.frame_no, hdr & 0x7ff));
            return None;
        }
        let mut out = Vec::new();
        let mut off = 16;
        loop {
            if off + 12 > end {
                self.violations.push(format!("frame {}: truncated datagram header at {}", self.frame_no, off));
                return None;
            }
            let lf = u16::from_le_bytes([frame[off + 6], frame[off + 7]]);
            let dlen = (lf & 0x07ff) as usize;
            if off + 12 + dlen > end {
                self.violations.push(format!("frame {}: truncated datagram data at {}", self.frame_no, off));
                return None;
            }
            out.push(Dgram {
                off,
                cmd: frame[off],
                adp: u16::from_le_bytes([frame[off + 2], frame[off + 3]]),
                ado: u16::from_le_bytes([frame[off + 4], frame[off + 5]]),
                data: frame[off + 10..off + 10 + dlen].to_vec(),
                wkc: u16::from_le_bytes([frame[off + 10 + dlen], frame[off + 11 + dlen]]),
            });
            off += 12 + dlen;
            if lf & 0x8000 == 0 {
                break;
            }
        }
        Some(out)
    }

    /// Execute one datagram on one device.
    fn execute(dev: &mut Device, dg: &mut Dgram, ctx: &Ctx) {
        // (selected for read, selected for write, OR the read data, auto-increment)
        let station = dev.station_address();
        let (rd, wr, or, inc) = match dg.cmd {
            CMD_APRD => (dg.adp == 0, false, false, true),
            CMD_APWR => (false, dg.adp == 0, false, true),
            CMD_APRW => (dg.adp == 0, dg.adp == 0, false, true),
            CMD_FPRD => (dg.adp == station, false, false, false),
            CMD_FPWR => (false, dg.adp == station, false, false),
            CMD_FPRW => (dg.adp == station, dg.adp == station, false, false),
            CMD_BRD => (true, false, true, true),
            CMD_BWR => (false, true, false, true),
            CMD_BRW => (true, true, true, true),
            CMD_ARMW => (dg.adp == 0, dg.adp != 0, false, true),
            CMD_FRMW => (dg.adp == station, dg.adp != station, false, false),
            CMD_LRD | CMD_LWR | CMD_LRW => {
                let addr = dg.adp as u32 | (dg.ado as u32) << 16;
                let (r, w) = dev.logical(addr, &mut dg.data, dg.cmd != CMD_LWR, dg.cmd != CMD_LRD);
                if r {
                    dg.wkc = dg.wkc.wrapping_add(1);
                }
                if w {
                    dg.wkc = dg.wkc.wrapping_add(if dg.cmd == CMD_LRW { 2 } else { 1 });
                }
                return;
            }
            _ => return, // NOP and unknown commands
        };
        let rw = matches!(dg.cmd, CMD_APRW | CMD_FPRW | CMD_BRW);
        let incoming = dg.data.clone();
        if rd {
            if let Some(v) = dev.read(dg.ado, dg.data.len(), ctx) {
                for (d, s) in dg.data.iter_mut().zip(v.iter()) {
                    *d = if or { *d | *s } else { *s };
                }
                dg.wkc = dg.wkc.wrapping_add(1);
            }
        }
        if wr && dev.write(dg.ado, &incoming, ctx) {
            dg.wkc = dg.wkc.wrapping_add(if rw { 2 } else { 1 });
        }
        if inc {
            dg.adp = dg.adp.wrapping_add(1);
        }
    }

    fn process(&mut self, frame: &[u8], n: u64) -> Vec<u8> {
        let Some(mut dgs) = self.parse(frame) else {
            return Self::passthrough(frame);
        };
        let tr = self.trace();
        self.update_ports();
        let t0 = self.now_ns();
        let before: Vec<(u16, u16, Vec<u8>, u16)> = dgs.iter().map(|d| (d.adp, d.ado, d.data.clone(), d.wkc)).collect();
        for &d in &tr.ring {
            let mut ctx = Ctx::default();
            for p in 0..4 {
                ctx.t_port[p] = tr.t_port[d][p].map(|t| t0 + t);
            }
            let dev = &mut self.devices[d];
            for dg in dgs.iter_mut() {
                Self::execute(dev, dg, &ctx);
            }
        }
        for d in self.devices.iter_mut() {
            if d.pd_touched {
                d.pd_touched = false;
                if d.powered {
                    d.run_app();
                }
            }
        }
        for f in &self.faults {
            if let Fault::Wkc { frame, datagram, delta } = f {
                if *frame == n {
                    if let Some(dg) = dgs.get_mut(*datagram) {
                        dg.wkc = (dg.wkc as i32 + *delta) as u16;
                    }
                }
            }
        }
        let mut out = Self::passthrough(frame);
        for (pos, dg) in dgs.iter().enumerate() {
            let o = dg.off;
            out[o + 2..o + 4].copy_from_slice(&dg.adp.to_le_bytes());
            out[o + 4..o + 6].copy_from_slice(&dg.ado.to_le_bytes());
            let l = dg.data.len();
            out[o + 10..o + 10 + l].copy_from_slice(&dg.data);
            out[o + 10 + l..o + 12 + l].copy_from_slice(&dg.wkc.to_le_bytes());
            if self.log_enabled {
                let (adp, ado, data, wkc) = before[pos].clone();
                self.log.push(DgramLog {
                    frame: n,
                    pos,
                    cmd: dg.cmd,
                    idx: frame[o + 1],
                    adp,
                    ado,
                    adp_after: dg.adp,
                    len: l as u16,
                    before: data,
                    after: dg.data.clone(),
                    wkc_before: wkc,
                    wkc: dg.wkc,
                });
            }
        }
        if self.log.len() > self.log_limit {
            let cut = self.log.len() - self.log_limit;
            self.log.drain(0..cut);
        }
        self.last_trace = tr;
        out
    }
}

impl Wire for Segment {
    fn exchange(&mut self, frame: &[u8]) -> Option<Vec<u8>> {
        let n = self.frame_no;
        if let Some(mut h) = self.pre_exchange.take() {
            h(self, n);
            if self.pre_exchange.is_none() {
                self.pre_exchange = Some(h);
            }
        }
        self.frame_no += 1;
        if self.frame_time_us > 0 {
            crate::clock::advance(self.frame_time_us);
        }
        let mut lose = None;
        for f in &self.faults {
            if let Fault::LoseFrame { frame, after_processing } = f {
                if *frame == n {
                    lose = Some(*after_processing);
                }
            }
        }
        let mut reply = match lose {
            Some(false) => None,
            Some(true) => {
                self.process(frame, n);
                None
            }
            None => Some(self.process(frame, n)),
        };
        for f in self.faults.clone() {
            match f {
                Fault::DropOut { device, after_frame } if after_frame == n => self.devices[device].powered = false,
                Fault::DuplicateExtra { frame } if frame == n => {
                    if let Some(r) = &reply {
                        self.extra_replies.push_back(r.clone());
                    }
                }
                _ => {}
            }
        }
        if let Some(s) = self.stale.take() {
            reply = Some(s);
        }
        if self.faults.iter().any(|f| matches!(f, Fault::DuplicateReplaceNext { frame } if *frame == n)) {
            self.stale = reply.clone();
        }
        if let Some(mut h) = self.post_exchange.take() {
            h(self, n, &mut reply);
            if self.post_exchange.is_none() {
                self.post_exchange = Some(h);
            }
        }
        reply
    }
}
