//! EtherCAT segment simulator: simulated SubDevices on a simulated wire for the real
//! `ethercrab::MainDevice` (see `net::run`). Deterministic, single-threaded, offline.
//!
//! - [`eeprom`]: `DeviceDesc` -> SII image builder (+ decoder used to check the layout against
//!   the real dumps in `/repo/dumps/eeprom`).
//! - [`device`]: one ESC: 64 KiB memory, AL script, SII interface, SM/FMMU, mailbox, DC registers,
//!   process data "application".
//! - [`coe`]: mailbox protocol handler and standard-conforming CoE SDO server; every deviation is
//!   opt-in through `CoeQuirks`.
//! - [`segment`]: topology tree, frame codec, datagram execution in ring order, DC timing model,
//!   faults, hooks, datagram log; `Segment` implements `net::Wire`.
//!
//! ```ignore
//! let mut a = Device::new(DeviceDesc::coe_io("COE-A", 128, 2, 3), EscInfo::default().with_dc(DcKind::Bits64));
//! a.app = App::Loopback { xor: 0xFF };
//! a.al.on_request(AL_SAFEOP, AlBehaviour::Refuse { code: 0x001E });
//! let b = Device::new(DeviceDesc::simple_io("EEP-B", 1, 2), EscInfo::default());
//! let mut seg = Segment::chain(vec![a, b]);            // or Segment::tree(devs, &parents)
//! seg.faults.push(Fault::Wkc { frame: 120, datagram: 0, delta: -1 });
//! let r = net::run(fut, &mut tx, &mut rx, &mut seg, &mut log, 100_000);
//! assert_eq!(seg.devices[0].outputs(), [..]);          // seg.log holds every executed datagram
//! ```
//!
//! Time: every exchanged frame advances the virtual clock by `Segment::frame_time_us` (default
//! 10 us) so that poll loops of the master with a zero `wait_loop_delay` run into their timeouts.
//! `bin/simtest.rs` is the self-test against the real master.
pub mod coe;
pub mod device;
pub mod eeprom;
pub mod segment;

pub use coe::{CoeQuirks, Emergency, MailboxServer, ObjectDictionary, SdoEvent};
pub use device::{AlBehaviour, App, DcKind, Device, EscInfo};
pub use eeprom::{DeviceDesc, GeneralDesc, MailboxDesc, PdoDesc, PdoEntryDesc, SmDesc};
pub use segment::{DgramLog, Fault, Link, Segment, Trace};
