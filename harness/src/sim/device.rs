//! One simulated EtherCAT SubDevice: 64 KiB ESC address space with the register semantics the
//! MainDevice relies on (ETG.1000.4 register map), AL state machine script, SII interface, sync
//! managers / FMMUs, mailbox, distributed-clock registers and a tiny "application".
use super::coe::{MailboxServer, ObjectDictionary};
use super::eeprom::*;
use std::collections::{BTreeMap, VecDeque};

pub const REG_TYPE: u16 = 0x0000;
pub const REG_STATION_ADDR: u16 = 0x0010;
pub const REG_ALIAS: u16 = 0x0012;
pub const REG_DL_STATUS: u16 = 0x0110;
pub const REG_AL_CONTROL: u16 = 0x0120;
pub const REG_AL_STATUS: u16 = 0x0130;
pub const REG_AL_CODE: u16 = 0x0134;
pub const REG_SII_CONFIG: u16 = 0x0500;
pub const REG_SII_CONTROL: u16 = 0x0502;
pub const REG_SII_ADDR: u16 = 0x0504;
pub const REG_SII_DATA: u16 = 0x0508;
pub const REG_FMMU0: u16 = 0x0600;
pub const REG_SM0: u16 = 0x0800;
pub const REG_DC_PORT0: u16 = 0x0900;
pub const REG_DC_SYSTIME: u16 = 0x0910;
pub const REG_DC_RECV: u16 = 0x0918;
pub const REG_DC_OFFSET: u16 = 0x0920;
pub const REG_DC_DELAY: u16 = 0x0928;
pub const REG_DC_DIFF: u16 = 0x092C;

pub const AL_INIT: u8 = 1;
pub const AL_PREOP: u8 = 2;
pub const AL_BOOT: u8 = 3;
pub const AL_SAFEOP: u8 = 4;
pub const AL_OP: u8 = 8;

/// AL status codes used by the built-in checks.
pub const ALC_INVALID_STATE_CHANGE: u16 = 0x0011;
pub const ALC_UNKNOWN_STATE: u16 = 0x0012;
pub const ALC_INVALID_MAILBOX_CONFIG: u16 = 0x0016;
pub const ALC_INVALID_OUTPUT_CONFIG: u16 = 0x001D;
pub const ALC_INVALID_INPUT_CONFIG: u16 = 0x001E;

/// Support-flag bits (register 0x0008).
pub const SF_FMMU_BIT_OPS: u16 = 1 << 0;
pub const SF_DC: u16 = 1 << 2;
pub const SF_DC64: u16 = 1 << 3;
pub const SF_ENHANCED_DC_SYNC: u16 = 1 << 8;
pub const SF_LRW_NOT_SUPPORTED: u16 = 1 << 9;
pub const SF_SPECIAL_FMMU: u16 = 1 << 11;

#[derive(Clone, Copy, Debug, PartialEq)]
pub enum DcKind {
    None,
    Bits32,
    Bits64,
}

/// ESC information registers 0x0000..0x000A.
#[derive(Clone, Debug)]
pub struct EscInfo {
    pub esc_type: u8,
    pub revision: u8,
    pub build: u16,
    pub fmmu_count: u8,
    pub sm_count: u8,
    pub ram_kb: u8,
    pub port_desc: u8,
    pub support_flags: u16,
}

impl Default for EscInfo {
    fn default() -> Self {
        EscInfo { esc_type: 0x11, revision: 0, build: 1, fmmu_count: 8, sm_count: 8, ram_kb: 8, port_desc: 0x0f, support_flags: SF_FMMU_BIT_OPS }
    }
}

impl EscInfo {
    pub fn with_dc(mut self, kind: DcKind) -> Self {
        self.support_flags &= !(SF_DC | SF_DC64 | SF_ENHANCED_DC_SYNC);
        match kind {
            DcKind::None => {}
            DcKind::Bits32 => self.support_flags |= SF_DC | SF_ENHANCED_DC_SYNC,
            DcKind::Bits64 => self.support_flags |= SF_DC | SF_DC64 | SF_ENHANCED_DC_SYNC,
        }
        self
    }
}

/// What the device does with one AL state request.
#[derive(Clone, Debug, PartialEq)]
pub enum AlBehaviour {
    /// Reach the requested state; `after_polls` AL-status reads still show the old state.
    Accept { after_polls: u32 },
    /// Stay, set the error bit and this status code.
    Refuse { code: u16 },
    /// Never react.
    Stall,
    /// Accept, then after `fallback_after_polls` further status reads drop to `fallback_state`
    /// with the error bit and `code`.
    AcceptThenFallback { after_polls: u32, fallback_after_polls: u32, fallback_state: u8, code: u16 },
}

#[derive(Clone, Debug)]
pub struct AlState {
    pub state: u8,
    pub error: bool,
    pub code: u16,
    /// Scripted behaviours per requested state; consumed front first, then `default` applies.
    pub script: BTreeMap<u8, VecDeque<AlBehaviour>>,
    pub default: AlBehaviour,
    /// Run the standard plausibility checks (mailbox SMs before PRE-OP, process data SM lengths
    /// before SAFE-OP, legal transitions) before consulting script/default.
    pub strict: bool,
    pending: Option<(u8, u32, Option<(u32, u8, u16)>)>,
    fallback: Option<(u32, u8, u16)>,
    /// (state before, raw control byte) for every AL control write.
    pub requests: Vec<(u8, u8)>,
    pub polls: u64,
}

impl AlState {
    pub fn on_request(&mut self, state: u8, b: AlBehaviour) {
        self.script.entry(state).or_default().push_back(b);
    }
}

#[derive(Clone, Debug, Default)]
pub struct SiiState {
    /// Device returns 8 bytes per read (status bit 6) instead of 4.
    pub read8: bool,
    /// Every command keeps the busy bit set for this many status reads.
    pub busy_polls: u32,
    busy_left: u32,
    /// The next n write commands fail with the command-error bit.
    pub write_cmd_errors: u32,
    /// The next n read commands fail with the command-error bit.
    pub read_cmd_errors: u32,
    /// Error bits of the status high byte (0x08 checksum, 0x10 device info, 0x20 command, 0x40 write).
    pub err_bits: u8,
    pub reads: u64,
    /// (word address, data) of every executed write.
    pub writes: Vec<(u32, [u8; 2])>,
}

/// Process-data "application" run once per frame that touched the device with a logical command.
pub enum App {
    None,
    /// OP: inputs[i] = outputs[i] ^ xor.
    Loopback { xor: u8 },
    /// SAFE-OP/OP: inputs[i] = value + i; value += 1 each cycle.
    Counter { value: u8 },
    /// (al state, outputs, inputs)
    Custom(Box<dyn FnMut(u8, &[u8], &mut [u8])>),
}

#[derive(Clone, Debug)]
pub struct DcState {
    pub kind: DcKind,
    /// local clock = true time + this (ns).
    pub clock_offset_ns: i64,
    /// Delay port 0 -> processing unit -> next port.
    pub proc_delay_ns: u32,
    /// Delay from a returning port to the next port.
    pub fwd_delay_ns: u32,
    pub latch_count: u32,
    /// Local times latched per port at the last latch.
    pub last_latch: [Option<u64>; 4],
    pub sys_time_writes: u64,
    /// (local system time - delay) - received system time at the last 0x0910 write.
    pub last_diff: i64,
}

/// Per-frame context handed to register accesses.
#[derive(Clone, Copy, Debug, Default)]
pub struct Ctx {
    /// True time (ns) the frame reaches each port of this device (None = port closed).
    pub t_port: [Option<u64>; 4],
}

#[derive(Clone, Copy, Debug, PartialEq)]
pub struct SmReg {
    pub start: u16,
    pub len: u16,
    pub control: u8,
    pub activate: u8,
}
impl SmReg {
    pub fn enabled(&self) -> bool {
        self.activate & 1 != 0
    }
    pub fn mailbox_mode(&self) -> bool {
        self.control & 3 == 2
    }
    pub fn master_writes(&self) -> bool {
        (self.control >> 2) & 3 == 1
    }
    pub fn contains_range(&self, ado: usize, len: usize) -> bool {
        let s = self.start as usize;
        ado < s + self.len as usize && ado + len > s
    }
}

#[derive(Clone, Copy, Debug, PartialEq)]
pub struct FmmuReg {
    pub logical_start: u32,
    pub len: u16,
    pub start_bit: u8,
    pub end_bit: u8,
    pub phys_start: u16,
    pub phys_bit: u8,
    pub read: bool,
    pub write: bool,
    pub enabled: bool,
}

pub struct Device {
    pub desc: DeviceDesc,
    pub esc: EscInfo,
    pub mem: Vec<u8>,
    pub eeprom: Vec<u8>,
    /// false = unpowered: frames pass through untouched.
    pub powered: bool,
    pub al: AlState,
    pub sii: SiiState,
    pub mbx: Option<MailboxServer>,
    /// Telegrams waiting for the send mailbox to become free.
    pub mbx_out: VecDeque<Vec<u8>>,
    /// A produced reply only shows up after this many polls of the send-SM status.
    pub mbx_reply_delay_polls: u32,
    mbx_delay_left: u32,
    /// The receive mailbox still reads "full" for this many status polls after a write.
    pub mbx_rx_hold_polls: u32,
    mbx_rx_hold_left: u32,
    pub sm_full: [bool; 16],
    pub app: App,
    pub dc: DcState,
    pub open_ports: [bool; 4],
    /// Set when a logical datagram touched the device in the current frame.
    pub pd_touched: bool,
    pub pd_cycles: u64,
    /// Things a real ESC would not tolerate (bit-wise FMMUs, ...), for oracles.
    pub violations: Vec<String>,
}

fn ov(ado: usize, len: usize, start: usize, end: usize) -> bool {
    ado < end && ado + len > start
}

impl Device {
    pub fn new(desc: DeviceDesc, esc: EscInfo) -> Device {
        let eeprom = desc.build();
        let kind = if esc.support_flags & SF_DC == 0 {
            DcKind::None
        } else if esc.support_flags & SF_DC64 != 0 {
            DcKind::Bits64
        } else {
            DcKind::Bits32
        };
        let mbx = desc.mailbox.as_ref().filter(|m| m.rx_size > 0 || m.tx_size > 0).map(|m| {
            let mut s = MailboxServer::new(m.protocols);
            s.od = default_od(&desc);
            s
        });
        let mut d = Device {
            desc,
            esc,
            mem: vec![0; 0x10000],
            eeprom,
            powered: true,
            al: AlState {
                state: AL_INIT,
                error: false,
                code: 0,
                script: BTreeMap::new(),
                default: AlBehaviour::Accept { after_polls: 0 },
                strict: true,
                pending: None,
                fallback: None,
                requests: vec![],
                polls: 0,
            },
            sii: SiiState::default(),
            mbx,
            mbx_out: VecDeque::new(),
            mbx_reply_delay_polls: 0,
            mbx_delay_left: 0,
            mbx_rx_hold_polls: 0,
            mbx_rx_hold_left: 0,
            sm_full: [false; 16],
            app: App::None,
            dc: DcState {
                kind,
                clock_offset_ns: 0,
                proc_delay_ns: 300,
                fwd_delay_ns: 280,
                latch_count: 0,
                last_latch: [None; 4],
                sys_time_writes: 0,
                last_diff: 0,
            },
            open_ports: [true, false, false, false],
            pd_touched: false,
            pd_cycles: 0,
            violations: vec![],
        };
        d.power_on();
        d
    }

    /// (Re)initialise the ESC registers as after power-on. Keeps EEPROM, scripts and the OD.
    pub fn power_on(&mut self) {
        self.mem.iter_mut().for_each(|b| *b = 0);
        let e = &self.esc;
        self.mem[0] = e.esc_type;
        self.mem[1] = e.revision;
        self.mem[2..4].copy_from_slice(&e.build.to_le_bytes());
        self.mem[4] = e.fmmu_count;
        self.mem[5] = e.sm_count;
        self.mem[6] = e.ram_kb;
        self.mem[7] = e.port_desc;
        self.mem[8..10].copy_from_slice(&e.support_flags.to_le_bytes());
        let alias = [self.eeprom[8], self.eeprom[9]];
        self.mem[REG_ALIAS as usize..REG_ALIAS as usize + 2].copy_from_slice(&alias);
        self.sii.err_bits = if sii_crc(&self.eeprom[0..14]) != self.eeprom[14] { 0x08 } else { 0 };
        self.sii.busy_left = 0;
        self.al.state = AL_INIT;
        self.al.error = false;
        self.al.code = 0;
        self.al.pending = None;
        self.al.fallback = None;
        self.sm_full = [false; 16];
        self.mbx_out.clear();
        self.powered = true;
        self.sync_al_regs();
        self.set_ports(self.open_ports);
    }

    // ---- small typed accessors -------------------------------------------------------------
    pub fn u16_at(&self, a: u16) -> u16 {
        u16::from_le_bytes([self.mem[a as usize], self.mem[a as usize + 1]])
    }
    pub fn u32_at(&self, a: u16) -> u32 {
        u32::from_le_bytes(self.mem[a as usize..a as usize + 4].try_into().unwrap())
    }
    pub fn u64_at(&self, a: u16) -> u64 {
        u64::from_le_bytes(self.mem[a as usize..a as usize + 8].try_into().unwrap())
    }
    fn put(&mut self, a: u16, b: &[u8]) {
        self.mem[a as usize..a as usize + b.len()].copy_from_slice(b);
    }
    pub fn station_address(&self) -> u16 {
        self.u16_at(REG_STATION_ADDR)
    }
    pub fn set_station_address(&mut self, a: u16) {
        self.put(REG_STATION_ADDR, &a.to_le_bytes());
    }
    pub fn al_state(&self) -> u8 {
        self.al.state
    }
    pub fn od(&mut self) -> &mut ObjectDictionary {
        &mut self.mbx.as_mut().expect("device has no mailbox").od
    }
    pub fn sm(&self, i: usize) -> SmReg {
        let b = REG_SM0 as usize + 8 * i;
        SmReg { start: self.u16_at(b as u16), len: self.u16_at(b as u16 + 2), control: self.mem[b + 4], activate: self.mem[b + 6] }
    }
    pub fn fmmu(&self, i: usize) -> FmmuReg {
        let b = (REG_FMMU0 as usize + 16 * i) as u16;
        let m = &self.mem;
        let bu = b as usize;
        FmmuReg {
            logical_start: self.u32_at(b),
            len: self.u16_at(b + 4),
            start_bit: m[bu + 6] & 7,
            end_bit: m[bu + 7] & 7,
            phys_start: self.u16_at(b + 8),
            phys_bit: m[bu + 10] & 7,
            read: m[bu + 11] & 1 != 0,
            write: m[bu + 11] & 2 != 0,
            enabled: m[bu + 12] & 1 != 0,
        }
    }

    /// DL status from the open ports (link bits 4-7, loop bits 8/10/12/14, communication bits
    /// 9/11/13/15; PDI operational + watchdog ok).
    pub fn set_ports(&mut self, open: [bool; 4]) {
        self.open_ports = open;
        let mut v: u16 = 0x0003;
        for p in 0..4 {
            if open[p] {
                v |= 1 << (4 + p);
                v |= 1 << (9 + 2 * p);
            } else {
                v |= 1 << (8 + 2 * p);
            }
        }
        self.put(REG_DL_STATUS, &v.to_le_bytes());
    }

    // ---- process data windows --------------------------------------------------------------
    fn pd_windows(&self, usage: u8) -> Vec<(usize, usize)> {
        let mut w = Vec::new();
        for (i, s) in self.desc.sync_managers.iter().enumerate() {
            if s.usage == usage {
                let r = self.sm(i);
                if r.enabled() && r.len > 0 {
                    w.push((r.start as usize, r.len as usize));
                }
            }
        }
        w
    }
    fn gather(&self, w: &[(usize, usize)]) -> Vec<u8> {
        w.iter().flat_map(|(s, l)| self.mem[*s..(*s + *l).min(0x10000)].iter().copied()).collect()
    }
    /// Content of the (enabled) output sync manager windows, concatenated.
    pub fn outputs(&self) -> Vec<u8> {
        self.gather(&self.pd_windows(SM_OUTPUTS))
    }
    pub fn inputs(&self) -> Vec<u8> {
        self.gather(&self.pd_windows(SM_INPUTS))
    }
    pub fn set_inputs(&mut self, data: &[u8]) {
        let mut it = data.iter();
        for (s, l) in self.pd_windows(SM_INPUTS) {
            for a in s..(s + l).min(0x10000) {
                if let Some(b) = it.next() {
                    self.mem[a] = *b;
                }
            }
        }
    }
    /// Run the application once (called by the segment at the end of a frame that touched us).
    pub fn run_app(&mut self) {
        self.pd_cycles += 1;
        let st = self.al.state;
        let outputs = self.outputs();
        let mut inputs = self.inputs();
        let mut app = std::mem::replace(&mut self.app, App::None);
        match &mut app {
            App::None => {}
            App::Loopback { xor } => {
                if st == AL_OP {
                    for (i, o) in inputs.iter_mut().zip(outputs.iter()) {
                        *i = *o ^ *xor;
                    }
                }
            }
            App::Counter { value } => {
                if st == AL_SAFEOP || st == AL_OP {
                    for (k, i) in inputs.iter_mut().enumerate() {
                        *i = value.wrapping_add(k as u8);
                    }
                    *value = value.wrapping_add(1);
                }
            }
            App::Custom(f) => f(st, &outputs, &mut inputs),
        }
        self.app = app;
        self.set_inputs(&inputs);
    }

    // ---- AL state machine ------------------------------------------------------------------
    fn sync_al_regs(&mut self) {
        let v = (self.al.state as u16 & 0x0f) | if self.al.error { 0x10 } else { 0 };
        self.put(REG_AL_STATUS, &v.to_le_bytes());
        let c = self.al.code;
        self.put(REG_AL_CODE, &c.to_le_bytes());
    }

    /// Expected process data length in bits for sync manager `i`: from the object dictionary
    /// (0x1C10+i) on CoE devices, else from the EEPROM PDO categories.
    pub fn expected_pd_bits(&self, i: usize) -> u32 {
        if self.desc.has_coe() {
            if let Some(b) = self.mbx.as_ref().and_then(|m| m.od.assigned_pdo_bits(0x1C10 + i as u16)) {
                return b;
            }
        }
        self.desc.eeprom_pdo_bits(i as u8)
    }

    fn strict_check(&self, from: u8, to: u8) -> Option<u16> {
        if ![AL_INIT, AL_PREOP, AL_BOOT, AL_SAFEOP, AL_OP].contains(&to) {
            return Some(ALC_UNKNOWN_STATE);
        }
        let legal = match (from, to) {
            (a, b) if a == b => true,
            (_, AL_INIT) => true,
            (AL_INIT, AL_PREOP) | (AL_INIT, AL_BOOT) => true,
            (AL_PREOP, AL_SAFEOP) => true,
            (AL_SAFEOP, AL_OP) | (AL_SAFEOP, AL_PREOP) => true,
            (AL_OP, AL_SAFEOP) | (AL_OP, AL_PREOP) => true,
            _ => false,
        };
        if !legal {
            return Some(ALC_INVALID_STATE_CHANGE);
        }
        if from == AL_INIT && to == AL_PREOP {
            if let Some(m) = self.desc.mailbox.as_ref().filter(|_| self.mbx.is_some()) {
                for (i, s) in self.desc.sync_managers.iter().enumerate() {
                    let (off, size) = match s.usage {
                        SM_MBX_WRITE => (m.rx_offset, m.rx_size),
                        SM_MBX_READ => (m.tx_offset, m.tx_size),
                        _ => continue,
                    };
                    let r = self.sm(i);
                    if size > 0 && !(r.enabled() && r.mailbox_mode() && r.start == off && r.len == size) {
                        return Some(ALC_INVALID_MAILBOX_CONFIG);
                    }
                }
            }
        }
        if from == AL_PREOP && to == AL_SAFEOP {
            for (i, s) in self.desc.sync_managers.iter().enumerate() {
                let code = match s.usage {
                    SM_OUTPUTS => ALC_INVALID_OUTPUT_CONFIG,
                    SM_INPUTS => ALC_INVALID_INPUT_CONFIG,
                    _ => continue,
                };
                let want = (self.expected_pd_bits(i) + 7) / 8;
                let r = self.sm(i);
                let ok = if want == 0 { !r.enabled() || r.len == 0 } else { r.enabled() && r.len as u32 == want && r.start == s.start };
                if !ok {
                    return Some(code);
                }
            }
        }
        None
    }

    fn al_control_written(&mut self) {
        let raw = self.mem[REG_AL_CONTROL as usize];
        let from = self.al.state;
        self.al.requests.push((from, raw));
        if raw & 0x10 != 0 {
            self.al.error = false;
            self.al.code = 0;
        }
        let to = raw & 0x0f;
        self.al.pending = None;
        let scripted = self.al.script.get_mut(&to).and_then(|q| q.pop_front());
        let behaviour = match scripted {
            Some(b) => b,
            None => {
                if self.al.strict {
                    if let Some(code) = self.strict_check(from, to) {
                        self.al.error = true;
                        self.al.code = code;
                        self.sync_al_regs();
                        return;
                    }
                }
                self.al.default.clone()
            }
        };
        match behaviour {
            AlBehaviour::Accept { after_polls } => {
                if after_polls == 0 {
                    self.enter(to);
                } else {
                    self.al.pending = Some((to, after_polls, None));
                }
            }
            AlBehaviour::Refuse { code } => {
                self.al.error = true;
                self.al.code = code;
            }
            AlBehaviour::Stall => {}
            AlBehaviour::AcceptThenFallback { after_polls, fallback_after_polls, fallback_state, code } => {
                let fb = Some((fallback_after_polls, fallback_state, code));
                if after_polls == 0 {
                    self.enter(to);
                    self.al.fallback = fb;
                } else {
                    self.al.pending = Some((to, after_polls, fb));
                }
            }
        }
        self.sync_al_regs();
    }

    fn enter(&mut self, state: u8) {
        self.al.state = state;
        self.al.fallback = None;
        if state == AL_INIT {
            // mailbox is stopped in INIT
            self.mbx_out.clear();
        }
    }

    fn al_poll(&mut self) {
        self.al.polls += 1;
        if let Some((to, left, fb)) = self.al.pending.take() {
            if left == 0 {
                self.enter(to);
                self.al.fallback = fb;
            } else {
                self.al.pending = Some((to, left - 1, fb));
            }
        } else if let Some((left, st, code)) = self.al.fallback.take() {
            if left == 0 {
                self.al.state = st;
                self.al.error = true;
                self.al.code = code;
            } else {
                self.al.fallback = Some((left - 1, st, code));
            }
        }
        self.sync_al_regs();
    }

    // ---- SII -------------------------------------------------------------------------------
    fn sii_status(&mut self, poll: bool) -> [u8; 2] {
        let busy = self.sii.busy_left > 0;
        if poll && busy {
            self.sii.busy_left -= 1;
        }
        let lo = if self.sii.read8 { 0x40 } else { 0 } | if self.eeprom.len() > 2048 { 0x80 } else { 0 };
        let hi = self.sii.err_bits | if busy { 0x80 } else { 0 };
        [lo, hi]
    }

    fn sii_command(&mut self, lo: u8, hi: u8) {
        // Writing the command register acknowledges command/write errors.
        self.sii.err_bits &= !(0x20 | 0x40);
        let cmd = hi & 0x07;
        if cmd == 0 {
            // pure error acknowledge; checksum / device-info bits only change on reload
            return;
        }
        if self.mem[REG_SII_CONFIG as usize] & 1 != 0 || self.sii.busy_left > 0 {
            // EEPROM assigned to PDI, or interface busy: command rejected
            self.sii.err_bits |= 0x20;
            return;
        }
        let addr = self.u32_at(REG_SII_ADDR);
        let byte = addr as usize * 2;
        match cmd {
            1 => {
                if self.sii.read_cmd_errors > 0 {
                    self.sii.read_cmd_errors -= 1;
                    self.sii.err_bits |= 0x20;
                    return;
                }
                self.sii.reads += 1;
                let n = if self.sii.read8 { 8 } else { 4 };
                let mut d = [0xFFu8; 8];
                for (k, b) in d.iter_mut().enumerate().take(n) {
                    if let Some(x) = self.eeprom.get(byte + k) {
                        *b = *x;
                    }
                }
                self.put(REG_SII_DATA, &d[..n]);
                self.sii.busy_left = self.sii.busy_polls;
            }
            2 => {
                if lo & 1 == 0 || self.sii.write_cmd_errors > 0 {
                    self.sii.write_cmd_errors = self.sii.write_cmd_errors.saturating_sub(1);
                    self.sii.err_bits |= 0x20;
                    return;
                }
                let d = [self.mem[REG_SII_DATA as usize], self.mem[REG_SII_DATA as usize + 1]];
                if byte + 2 <= self.eeprom.len() {
                    self.eeprom[byte..byte + 2].copy_from_slice(&d);
                    self.sii.writes.push((addr, d));
                } else {
                    self.sii.err_bits |= 0x40;
                }
                self.sii.busy_left = self.sii.busy_polls;
            }
            4 => {
                let alias = [self.eeprom[8], self.eeprom[9]];
                self.put(REG_ALIAS, &alias);
                self.sii.err_bits = if sii_crc(&self.eeprom[0..14]) != self.eeprom[14] { 0x08 } else { 0 };
                self.sii.busy_left = self.sii.busy_polls;
            }
            _ => self.sii.err_bits |= 0x20,
        }
    }

    // ---- mailbox ---------------------------------------------------------------------------
    fn tx_mailbox_sm(&self) -> Option<usize> {
        (0..self.esc.sm_count as usize).find(|i| {
            let r = self.sm(*i);
            r.enabled() && r.mailbox_mode() && !r.master_writes() && r.len > 0
        })
    }

    /// Queue a raw telegram for the send mailbox (e.g. an unsolicited emergency).
    pub fn queue_mailbox(&mut self, telegram: Vec<u8>) {
        self.mbx_out.push_back(telegram);
        self.try_load_tx();
    }

    fn try_load_tx(&mut self) {
        let Some(i) = self.tx_mailbox_sm() else { return };
        if self.sm_full[i] || self.mbx_out.is_empty() || self.mbx_delay_left > 0 {
            return;
        }
        let r = self.sm(i);
        let mut t = self.mbx_out.pop_front().unwrap();
        t.resize(r.len as usize, 0);
        let s = r.start as usize;
        let e = (s + t.len()).min(0x10000);
        self.mem[s..e].copy_from_slice(&t[..e - s]);
        self.sm_full[i] = true;
        self.mbx_delay_left = self.mbx_reply_delay_polls;
    }

    fn rx_mailbox_complete(&mut self, i: usize) {
        let r = self.sm(i);
        let s = r.start as usize;
        let req = self.mem[s..(s + r.len as usize).min(0x10000)].to_vec();
        self.mbx_rx_hold_left = self.mbx_rx_hold_polls;
        let tx_size = self.tx_mailbox_sm().map(|t| self.sm(t).len as usize).unwrap_or(0);
        let had_pending = !self.mbx_out.is_empty();
        if let Some(m) = self.mbx.as_mut() {
            for t in m.handle(&req, tx_size) {
                self.mbx_out.push_back(t);
            }
        }
        if !had_pending {
            self.mbx_delay_left = self.mbx_reply_delay_polls;
        }
        self.try_load_tx();
    }

    fn sm_status_byte(&mut self, i: usize, poll: bool) -> u8 {
        let r = self.sm(i);
        let mut full = self.sm_full[i];
        if r.enabled() && r.mailbox_mode() {
            if r.master_writes() {
                if self.mbx_rx_hold_left > 0 {
                    full = true;
                    if poll {
                        self.mbx_rx_hold_left -= 1;
                    }
                }
            } else if poll {
                if !self.sm_full[i] && self.mbx_delay_left > 0 {
                    self.mbx_delay_left -= 1;
                }
                self.try_load_tx();
                full = self.sm_full[i];
            }
        }
        if full { 0x08 } else { 0 }
    }

    // ---- DC --------------------------------------------------------------------------------
    pub fn has_dc(&self) -> bool {
        self.dc.kind != DcKind::None
    }
    pub fn local_time(&self, true_ns: u64) -> u64 {
        (true_ns as i64).wrapping_add(self.dc.clock_offset_ns) as u64
    }
    fn dc_mask(&self, v: u64) -> u64 {
        if self.dc.kind == DcKind::Bits64 { v } else { v & 0xFFFF_FFFF }
    }
    /// Local copy of the system time when a frame arrives at port 0 at true time `t`.
    pub fn system_time(&self, t: u64) -> u64 {
        self.dc_mask(self.local_time(t).wrapping_add(self.u64_at(REG_DC_OFFSET)))
    }
    fn dc_latch(&mut self, ctx: &Ctx) {
        self.dc.latch_count += 1;
        for p in 0..4 {
            self.dc.last_latch[p] = None;
            if let (true, Some(t)) = (self.open_ports[p], ctx.t_port[p]) {
                let l = self.local_time(t);
                self.dc.last_latch[p] = Some(l);
                self.put(REG_DC_PORT0 + 4 * p as u16, &(l as u32).to_le_bytes());
            }
        }
        let l0 = self.dc_mask(self.local_time(ctx.t_port[0].unwrap_or(0)));
        self.put(REG_DC_RECV, &l0.to_le_bytes());
    }
    fn dc_system_time_written(&mut self, data: &[u8], ctx: &Ctx) {
        let mut b = [0u8; 8];
        let n = data.len().min(8);
        b[..n].copy_from_slice(&data[..n]);
        let received = self.dc_mask(u64::from_le_bytes(b));
        let local = self.system_time(ctx.t_port[0].unwrap_or(0)).wrapping_sub(self.u32_at(REG_DC_DELAY) as u64);
        let diff = if self.dc.kind == DcKind::Bits64 {
            local.wrapping_sub(received) as i64
        } else {
            (local as u32).wrapping_sub(received as u32) as i32 as i64
        };
        self.dc.sys_time_writes += 1;
        self.dc.last_diff = diff;
        let mag = diff.unsigned_abs().min(0x7FFF_FFFF) as u32;
        let v = mag | if diff < 0 { 0x8000_0000 } else { 0 };
        self.put(REG_DC_DIFF, &v.to_le_bytes());
    }

    // ---- physical memory access ------------------------------------------------------------
    fn range_ok(&self, ado: usize, len: usize) -> bool {
        if len == 0 || ado + len > 0x10000 {
            return false;
        }
        // DC registers only exist on DC capable devices
        if !self.has_dc() && ov(ado, len, 0x0900, 0x0A00) {
            return false;
        }
        true
    }

    /// Physical read. `None` = access refused (working counter not incremented).
    pub fn read(&mut self, ado: u16, len: usize, ctx: &Ctx) -> Option<Vec<u8>> {
        let a = ado as usize;
        if !self.range_ok(a, len) {
            return None;
        }
        // mailbox windows
        let mut emptied = None;
        for i in 0..self.esc.sm_count as usize {
            let r = self.sm(i);
            if r.enabled() && r.mailbox_mode() && r.contains_range(a, len) {
                if r.master_writes() || !self.sm_full[i] || a != r.start as usize {
                    return None;
                }
                if a + len >= r.start as usize + r.len as usize {
                    emptied = Some(i);
                }
            }
        }
        if ov(a, len, REG_AL_STATUS as usize, REG_AL_STATUS as usize + 2) {
            self.al_poll();
        }
        if ov(a, len, REG_SII_CONTROL as usize, REG_SII_CONTROL as usize + 2) {
            let s = self.sii_status(true);
            self.put(REG_SII_CONTROL, &s);
        }
        if ov(a, len, REG_SM0 as usize, REG_SM0 as usize + 8 * 16) {
            for i in 0..16 {
                let sa = REG_SM0 as usize + 8 * i + 5;
                if ov(a, len, sa, sa + 1) {
                    self.mem[sa] = self.sm_status_byte(i, true);
                }
            }
        }
        if self.has_dc() && ov(a, len, REG_DC_SYSTIME as usize, REG_DC_SYSTIME as usize + 8) {
            let v = self.system_time(ctx.t_port[0].unwrap_or(0));
            self.put(REG_DC_SYSTIME, &v.to_le_bytes());
        }
        let out = self.mem[a..a + len].to_vec();
        if let Some(i) = emptied {
            self.sm_full[i] = false;
            self.try_load_tx();
        }
        Some(out)
    }

    fn read_only(a: usize) -> bool {
        a < 0x10
            || (0x0110..0x0112).contains(&a)
            || (0x0130..0x0136).contains(&a)
            || (0x0502..0x0504).contains(&a)
            || ((0x0800..0x0880).contains(&a) && a % 8 == 5)
            || (0x0900..0x0920).contains(&a)
            || (0x092C..0x0930).contains(&a)
    }

    /// Physical write. `false` = access refused (working counter not incremented).
    pub fn write(&mut self, ado: u16, data: &[u8], ctx: &Ctx) -> bool {
        let a = ado as usize;
        let len = data.len();
        if !self.range_ok(a, len) {
            return false;
        }
        let mut completed = None;
        for i in 0..self.esc.sm_count as usize {
            let r = self.sm(i);
            if r.enabled() && r.mailbox_mode() && r.contains_range(a, len) {
                if !r.master_writes() || self.sm_full[i] || self.mbx_rx_hold_left > 0 || a != r.start as usize {
                    return false;
                }
                if a + len >= r.start as usize + r.len as usize {
                    completed = Some(i);
                }
            }
        }
        for (k, b) in data.iter().enumerate() {
            if !Self::read_only(a + k) {
                self.mem[a + k] = *b;
            }
        }
        if ov(a, len, REG_AL_CONTROL as usize, REG_AL_CONTROL as usize + 1) {
            self.al_control_written();
        }
        if ov(a, len, REG_SII_CONTROL as usize, REG_SII_CONTROL as usize + 2) {
            let st = self.sii_status(false);
            let lo = if a <= 0x0502 { data[0x0502 - a] } else { st[0] };
            let hi = if a + len > 0x0503 { data[0x0503 - a] } else { 0 };
            self.sii_command(lo, hi);
        }
        if ov(a, len, REG_SM0 as usize, REG_SM0 as usize + 8 * 16) {
            for i in 0..16 {
                if !self.sm(i).enabled() {
                    self.sm_full[i] = false;
                }
            }
        }
        if self.has_dc() {
            if ov(a, len, REG_DC_PORT0 as usize, REG_DC_PORT0 as usize + 4) {
                self.dc_latch(ctx);
            }
            if ov(a, len, REG_DC_SYSTIME as usize, REG_DC_SYSTIME as usize + 8) && a == REG_DC_SYSTIME as usize {
                self.dc_system_time_written(data, ctx);
            }
        }
        if let Some(i) = completed {
            self.rx_mailbox_complete(i);
        }
        true
    }

    // ---- logical access --------------------------------------------------------------------
    /// Apply the FMMUs to a logical datagram. Returns (something was read, something was written).
    pub fn logical(&mut self, addr: u32, data: &mut [u8], do_read: bool, do_write: bool) -> (bool, bool) {
        let lo = addr as u64;
        let hi = lo + data.len() as u64;
        let mut reads: Vec<(usize, u8)> = Vec::new();
        let mut wrote = false;
        let mut writes: Vec<(usize, u8)> = Vec::new();
        for k in 0..self.esc.fmmu_count.min(16) as usize {
            let f = self.fmmu(k);
            if !f.enabled || f.len == 0 {
                continue;
            }
            let fs = f.logical_start as u64;
            let fe = fs + f.len as u64;
            let (s, e) = (lo.max(fs), hi.min(fe));
            if s >= e {
                continue;
            }
            if f.start_bit != 0 || f.end_bit != 7 || f.phys_bit != 0 {
                let msg = format!("FMMU{} is bit-oriented ({}..{} phys bit {}): unsupported", k, f.start_bit, f.end_bit, f.phys_bit);
                self.violations.push(msg.clone());
                panic!("{}", msg);
            }
            for la in s..e {
                let phys = f.phys_start as usize + (la - fs) as usize;
                if phys >= 0x10000 {
                    continue;
                }
                let di = (la - lo) as usize;
                if f.read && do_read {
                    reads.push((di, self.mem[phys]));
                }
                if f.write && do_write {
                    writes.push((phys, data[di]));
                    wrote = true;
                }
            }
        }
        for (p, v) in writes {
            self.mem[p] = v;
        }
        let read = !reads.is_empty();
        for (i, v) in reads {
            data[i] = v;
        }
        if read || wrote {
            self.pd_touched = true;
        }
        (read, wrote)
    }
}

/// Object dictionary derived from the description: identity, name, SM types, PDO assignment
/// (0x1C10+i) and PDO mapping objects for every EEPROM PDO.
pub fn default_od(desc: &DeviceDesc) -> ObjectDictionary {
    let mut od = ObjectDictionary::default();
    od.set_u32(0x1000, 0, 0x0000_1389);
    od.set(0x1008, 0, desc.name.as_bytes());
    od.set(0x1009, 0, b"1.0");
    od.set(0x100A, 0, b"1.0");
    od.set_array(
        0x1018,
        &[
            desc.vendor_id.to_le_bytes().to_vec(),
            desc.product_id.to_le_bytes().to_vec(),
            desc.revision.to_le_bytes().to_vec(),
            desc.serial.to_le_bytes().to_vec(),
        ],
    );
    let types: Vec<Vec<u8>> = desc.sync_managers.iter().map(|s| vec![s.usage]).collect();
    od.set_array(0x1C00, &types);
    for (i, s) in desc.sync_managers.iter().enumerate() {
        if s.usage == SM_OUTPUTS || s.usage == SM_INPUTS {
            let pdos: Vec<Vec<u8>> = desc
                .rx_pdos
                .iter()
                .chain(desc.tx_pdos.iter())
                .filter(|p| p.sm as usize == i)
                .map(|p| p.index.to_le_bytes().to_vec())
                .collect();
            od.set_array(0x1C10 + i as u16, &pdos);
        }
    }
    for p in desc.rx_pdos.iter().chain(desc.tx_pdos.iter()) {
        let maps: Vec<Vec<u8>> = p
            .entries
            .iter()
            .map(|e| (((e.index as u32) << 16) | ((e.sub as u32) << 8) | e.bit_len as u32).to_le_bytes().to_vec())
            .collect();
        od.set_array(p.index, &maps);
    }
    od
}
