//! Mailbox protocol handler + CoE SDO server (ETG.1000.6 5.6, CiA 301 SDO semantics).
//!
//! The handler is byte-in / bytes-out: `MailboxServer::handle(request, tx_size)` gets the content
//! of the receive mailbox and returns the mailbox telegrams to queue for the send mailbox.
//! Everything implements the *standard* behaviour; deviations a test wants are switched on through
//! `CoeQuirks`.
//!
//! Byte layout of a CoE SDO telegram (offsets from the start of the mailbox):
//! 0 len u16 | 2 address u16 | 4 channel/prio | 5 type (low nibble, 3 = CoE) + counter (bits 4-6)
//! 6 CoE header u16 (number bits 0-8, service bits 12-15)
//! 8 SDO command byte: bit0 size-indicator, bit1 expedited, bits2-3 n, bit4 complete access,
//!   bits5-7 command specifier | 9 index u16 | 11 subindex | 12.. data / complete size / abort code
//! Segment telegrams: 8 = bit0 last ("no more follows"), bits1-3 n (7 - len), bit4 toggle,
//!   bits5-7 command specifier | 9.. up to (mailbox - 9) data bytes, at least 7.
use std::collections::{BTreeMap, BTreeSet, VecDeque};

pub const MBX_TYPE_ERR: u8 = 0;
pub const MBX_TYPE_COE: u8 = 3;

pub const COE_EMERGENCY: u8 = 1;
pub const COE_SDO_REQUEST: u8 = 2;
pub const COE_SDO_RESPONSE: u8 = 3;
pub const COE_SDO_INFO: u8 = 8;

pub const ABORT_TOGGLE: u32 = 0x0503_0000;
pub const ABORT_COMMAND: u32 = 0x0504_0001;
pub const ABORT_OUT_OF_MEMORY: u32 = 0x0504_0005;
pub const ABORT_UNSUPPORTED_ACCESS: u32 = 0x0601_0000;
pub const ABORT_READ_ONLY: u32 = 0x0601_0002;
pub const ABORT_NO_OBJECT: u32 = 0x0602_0000;
pub const ABORT_LEN_MISMATCH: u32 = 0x0607_0010;
pub const ABORT_NO_SUBINDEX: u32 = 0x0609_0011;
pub const ABORT_GENERAL: u32 = 0x0800_0000;

/// Object dictionary: (index, subindex) -> raw little-endian value.
#[derive(Clone, Debug, Default)]
pub struct ObjectDictionary {
    pub entries: BTreeMap<(u16, u8), Vec<u8>>,
    /// Entries a download is refused for (abort 0x06010002).
    pub read_only: BTreeSet<(u16, u8)>,
    /// If true a download must have exactly the length of the existing entry.
    pub strict_lengths: bool,
}

impl ObjectDictionary {
    pub fn set(&mut self, index: u16, sub: u8, value: &[u8]) {
        self.entries.insert((index, sub), value.to_vec());
    }
    pub fn set_u8(&mut self, index: u16, sub: u8, v: u8) {
        self.set(index, sub, &[v]);
    }
    pub fn set_u16(&mut self, index: u16, sub: u8, v: u16) {
        self.set(index, sub, &v.to_le_bytes());
    }
    pub fn set_u32(&mut self, index: u16, sub: u8, v: u32) {
        self.set(index, sub, &v.to_le_bytes());
    }
    pub fn get(&self, index: u16, sub: u8) -> Option<&Vec<u8>> {
        self.entries.get(&(index, sub))
    }
    pub fn get_uint(&self, index: u16, sub: u8) -> Option<u64> {
        self.get(index, sub).map(|v| v.iter().rev().fold(0u64, |a, b| (a << 8) | *b as u64))
    }
    pub fn has_index(&self, index: u16) -> bool {
        self.entries.range((index, 0)..=(index, 255)).next().is_some()
    }
    pub fn indices(&self) -> Vec<u16> {
        let mut v: Vec<u16> = self.entries.keys().map(|k| k.0).collect();
        v.dedup();
        v
    }
    /// An array/record object: sub 0 = count (u8), sub 1.. = values.
    pub fn set_array(&mut self, index: u16, values: &[Vec<u8>]) {
        self.set_u8(index, 0, values.len() as u8);
        for (i, v) in values.iter().enumerate() {
            self.set(index, (i + 1) as u8, v);
        }
    }
    /// Complete-access image: sub 0 as u8 + pad byte (only if `from_sub` == 0), then sub 1..=n.
    pub fn complete(&self, index: u16, from_sub: u8) -> Option<Vec<u8>> {
        if !self.has_index(index) {
            return None;
        }
        let mut out = Vec::new();
        if from_sub == 0 {
            out.push(self.get(index, 0).and_then(|v| v.first().copied()).unwrap_or(0));
            out.push(0);
        }
        for ((_, sub), v) in self.entries.range((index, 1)..=(index, 255)) {
            if *sub >= from_sub.max(1) {
                out.extend_from_slice(v);
            }
        }
        Some(out)
    }
    /// Sum of the mapped bit lengths of all PDOs assigned in `assign_index` (0x1C10 + SM index).
    pub fn assigned_pdo_bits(&self, assign_index: u16) -> Option<u32> {
        let n = self.get_uint(assign_index, 0)? as u8;
        let mut bits = 0u32;
        for i in 1..=n {
            let pdo = self.get_uint(assign_index, i)? as u16;
            let m = self.get_uint(pdo, 0).unwrap_or(0) as u8;
            for j in 1..=m {
                bits += (self.get_uint(pdo, j).unwrap_or(0) & 0xFF) as u32;
            }
        }
        Some(bits)
    }
}

/// Switches for non-standard server behaviour. `Default` is the standard.
#[derive(Clone, Debug)]
pub struct CoeQuirks {
    /// Command specifier in upload *segment* responses. CiA 301 / ETG.1000.6 Table 39: 0.
    pub segment_response_command: u8,
    /// Command specifier in initiate-download responses (standard: 3).
    pub download_response_command: u8,
    /// Command specifier in initiate-upload responses (standard: 2).
    pub upload_response_command: u8,
    /// Standard: the initiate response of a segmented upload already carries the first
    /// `mailbox - 16` data bytes. `false`: it carries only the complete size.
    pub segmented_initiate_carries_data: bool,
    /// Values up to this many bytes are answered expedited (standard 4; 0 = never expedited).
    pub expedited_max: usize,
    /// Force segmentation for values longer than this even if they would fit (None = standard).
    pub force_segmented_above: Option<usize>,
    /// Maximum data bytes per upload segment (None = mailbox size - 9).
    pub segment_max: Option<usize>,
    /// Reply with the counter of the request instead of the device's own counter.
    pub echo_counter: bool,
    /// Set the size-indicator bit in expedited upload responses (standard true).
    pub expedited_size_indicated: bool,
    /// Insert this many filler bytes between the segment header (offset 8) and the segment data,
    /// NOT counted in the mailbox length field (standard 0). Only useful to please a client that
    /// looks for segment data at the wrong offset.
    pub segment_data_pad: usize,
}

impl Default for CoeQuirks {
    fn default() -> Self {
        CoeQuirks {
            segment_response_command: 0,
            download_response_command: 3,
            upload_response_command: 2,
            segmented_initiate_carries_data: true,
            expedited_max: 4,
            force_segmented_above: None,
            segment_max: None,
            echo_counter: false,
            expedited_size_indicated: true,
            segment_data_pad: 0,
        }
    }
}

#[derive(Clone, Debug, PartialEq)]
pub struct Emergency {
    pub error_code: u16,
    pub error_register: u8,
    pub data: [u8; 5],
}

#[derive(Clone, Debug)]
struct UploadInProgress {
    data: Vec<u8>,
    pos: usize,
    toggle: bool,
}

/// One decoded SDO transaction seen by the server (for oracles).
#[derive(Clone, Debug, PartialEq)]
pub struct SdoEvent {
    pub kind: &'static str,
    pub index: u16,
    pub sub: u8,
    pub len: usize,
    pub abort: Option<u32>,
}

#[derive(Clone, Debug, Default)]
pub struct MailboxServer {
    pub od: ObjectDictionary,
    pub quirks: CoeQuirks,
    /// Supported protocols bitmask (word 0x1C of the EEPROM).
    pub protocols: u16,
    /// When non-empty, the front element replaces the server's answer to the next request.
    pub scripted_replies: VecDeque<Vec<u8>>,
    /// Emergency telegrams emitted (one per request) before the real reply.
    pub emergencies: VecDeque<Emergency>,
    /// Swallow the next n requests without answering.
    pub drop_requests: u32,
    pub counter: u8,
    upload: Option<UploadInProgress>,
    /// Raw requests received / telegrams produced, in order.
    pub requests: Vec<Vec<u8>>,
    pub replies: Vec<Vec<u8>>,
    pub events: Vec<SdoEvent>,
}

fn mbx_frame(payload: &[u8], ty: u8, counter: u8) -> Vec<u8> {
    let mut v = Vec::with_capacity(6 + payload.len());
    v.extend_from_slice(&(payload.len() as u16).to_le_bytes());
    v.extend_from_slice(&[0, 0, 0]);
    v.push((ty & 0x0f) | ((counter & 7) << 4));
    v.extend_from_slice(payload);
    v
}

impl MailboxServer {
    pub fn new(protocols: u16) -> Self {
        MailboxServer { protocols, ..Default::default() }
    }

    fn next_counter(&mut self, request_counter: u8) -> u8 {
        if self.quirks.echo_counter {
            return request_counter;
        }
        self.counter = if self.counter >= 7 { 1 } else { self.counter + 1 };
        self.counter
    }

    fn coe(&mut self, service: u8, body: &[u8], req_counter: u8) -> Vec<u8> {
        let mut p = ((service as u16) << 12).to_le_bytes().to_vec();
        p.extend_from_slice(body);
        let c = self.next_counter(req_counter);
        mbx_frame(&p, MBX_TYPE_COE, c)
    }

    fn abort(&mut self, index: u16, sub: u8, code: u32, rc: u8) -> Vec<u8> {
        self.upload = None;
        let mut b = vec![0x80];
        b.extend_from_slice(&index.to_le_bytes());
        b.push(sub);
        b.extend_from_slice(&code.to_le_bytes());
        self.coe(COE_SDO_RESPONSE, &b, rc)
    }

    /// Handle the content of the receive mailbox; returns telegrams for the send mailbox.
    /// `tx_size` is the configured length of the send mailbox.
    pub fn handle(&mut self, req: &[u8], tx_size: usize) -> Vec<Vec<u8>> {
        self.requests.push(req.to_vec());
        if self.drop_requests > 0 {
            self.drop_requests -= 1;
            return vec![];
        }
        let mut out = Vec::new();
        if let Some(e) = self.emergencies.pop_front() {
            let mut b = e.error_code.to_le_bytes().to_vec();
            b.push(e.error_register);
            b.extend_from_slice(&e.data);
            let t = self.coe(COE_EMERGENCY, &b, 0);
            out.push(t);
        }
        if let Some(r) = self.scripted_replies.pop_front() {
            out.push(r);
        } else {
            out.extend(self.serve(req, tx_size));
        }
        self.replies.extend(out.iter().cloned());
        out
    }

    fn serve(&mut self, req: &[u8], tx_size: usize) -> Vec<Vec<u8>> {
        if req.len() < 6 {
            return vec![];
        }
        let len = u16::from_le_bytes([req[0], req[1]]) as usize;
        let ty = req[5] & 0x0f;
        let rc = (req[5] >> 4) & 7;
        let body = &req[6..req.len().min(6 + len)];
        if ty != MBX_TYPE_COE || self.protocols & super::eeprom::MBX_COE == 0 {
            // Mailbox error reply: type 0, payload { type = 1, detail = 2 (unsupported protocol) }
            let c = self.next_counter(rc);
            return vec![mbx_frame(&[1, 0, 2, 0], MBX_TYPE_ERR, c)];
        }
        if body.len() < 2 {
            let c = self.next_counter(rc);
            return vec![mbx_frame(&[1, 0, 8, 0], MBX_TYPE_ERR, c)]; // size too short
        }
        let service = (u16::from_le_bytes([body[0], body[1]]) >> 12) as u8;
        let sdo = &body[2..];
        match service {
            COE_SDO_REQUEST => {
                let r = self.sdo(sdo, tx_size, rc);
                if r.is_empty() { vec![] } else { vec![r] }
            }
            COE_SDO_INFO => self.sdo_info(sdo, tx_size, rc),
            _ => vec![self.abort(0, 0, ABORT_COMMAND, rc)],
        }
    }

    fn sdo(&mut self, b: &[u8], tx_size: usize, rc: u8) -> Vec<u8> {
        if b.len() < 4 {
            return self.abort(0, 0, ABORT_COMMAND, rc);
        }
        let cmd = b[0];
        let ccs = cmd >> 5;
        let index = u16::from_le_bytes([b[1], b[2]]);
        let sub = b[3];
        let ca = cmd & 0x10 != 0;
        match ccs {
            // initiate upload
            2 => {
                self.upload = None;
                let value = if ca {
                    self.od.complete(index, sub)
                } else {
                    self.od.get(index, sub).cloned()
                };
                let Some(value) = value else {
                    let code = if self.od.has_index(index) { ABORT_NO_SUBINDEX } else { ABORT_NO_OBJECT };
                    self.events.push(SdoEvent { kind: "upload", index, sub, len: 0, abort: Some(code) });
                    return self.abort(index, sub, code, rc);
                };
                self.events.push(SdoEvent { kind: "upload", index, sub, len: value.len(), abort: None });
                let scs = self.quirks.upload_response_command << 5;
                let cab = if ca { 0x10 } else { 0 };
                let mut r = Vec::new();
                if value.len() <= self.quirks.expedited_max && value.len() <= 4 && !value.is_empty() {
                    let n = (4 - value.len()) as u8;
                    let s = if self.quirks.expedited_size_indicated { 1 } else { 0 };
                    r.push(scs | cab | (n << 2) | 0x02 | s);
                    r.extend_from_slice(&index.to_le_bytes());
                    r.push(sub);
                    let mut d = value.clone();
                    d.resize(4, 0);
                    r.extend_from_slice(&d);
                    return self.coe(COE_SDO_RESPONSE, &r, rc);
                }
                // normal / segmented: header + complete size + as much data as fits
                let room = tx_size.saturating_sub(16);
                let segmented = value.len() > room
                    || self.quirks.force_segmented_above.map_or(false, |m| value.len() > m);
                r.push(scs | cab | 0x01);
                r.extend_from_slice(&index.to_le_bytes());
                r.push(sub);
                r.extend_from_slice(&(value.len() as u32).to_le_bytes());
                if !segmented {
                    r.extend_from_slice(&value);
                } else {
                    let first = if self.quirks.segmented_initiate_carries_data {
                        room.min(self.quirks.force_segmented_above.unwrap_or(room)).min(value.len())
                    } else {
                        0
                    };
                    r.extend_from_slice(&value[..first]);
                    self.upload = Some(UploadInProgress { data: value, pos: first, toggle: false });
                }
                self.coe(COE_SDO_RESPONSE, &r, rc)
            }
            // upload segment
            3 => {
                let toggle = cmd & 0x10 != 0;
                let Some(mut up) = self.upload.take() else {
                    return self.abort(0, 0, ABORT_COMMAND, rc);
                };
                if toggle != up.toggle {
                    return self.abort(0, 0, ABORT_TOGGLE, rc);
                }
                let max = self.quirks.segment_max.unwrap_or(tx_size.saturating_sub(9 + self.quirks.segment_data_pad)).max(1);
                let n = (up.data.len() - up.pos).min(max);
                let chunk = up.data[up.pos..up.pos + n].to_vec();
                up.pos += n;
                let last = up.pos >= up.data.len();
                let unused = if n < 7 { (7 - n) as u8 } else { 0 };
                let mut r = vec![
                    (self.quirks.segment_response_command << 5)
                        | if toggle { 0x10 } else { 0 }
                        | (unused << 1)
                        | last as u8,
                ];
                r.extend_from_slice(&chunk);
                while r.len() < 8 {
                    r.push(0);
                }
                self.events.push(SdoEvent { kind: "segment", index: 0, sub: 0, len: n, abort: None });
                if !last {
                    up.toggle = !up.toggle;
                    self.upload = Some(up);
                }
                let pad = self.quirks.segment_data_pad;
                let mut t = self.coe(COE_SDO_RESPONSE, &r, rc);
                if pad > 0 {
                    // filler after the segment header; the length field keeps its standard value
                    let tail = t.split_off(9);
                    t.extend(std::iter::repeat(0xEE).take(pad));
                    t.extend(tail);
                }
                t
            }
            // initiate download
            1 => {
                self.upload = None;
                let expedited = cmd & 0x02 != 0;
                let size_ind = cmd & 0x01 != 0;
                let data: Vec<u8> = if expedited {
                    let n = if size_ind { ((cmd >> 2) & 3) as usize } else { 0 };
                    b.get(4..8 - n).map(|d| d.to_vec()).unwrap_or_default()
                } else {
                    if b.len() < 8 {
                        return self.abort(index, sub, ABORT_COMMAND, rc);
                    }
                    let size = u32::from_le_bytes([b[4], b[5], b[6], b[7]]) as usize;
                    if b.len() < 8 + size {
                        // would need download segments: not supported by this server
                        return self.abort(index, sub, ABORT_OUT_OF_MEMORY, rc);
                    }
                    b[8..8 + size].to_vec()
                };
                let code = if ca {
                    Some(ABORT_UNSUPPORTED_ACCESS)
                } else if !self.od.has_index(index) {
                    Some(ABORT_NO_OBJECT)
                } else if self.od.get(index, sub).is_none() {
                    Some(ABORT_NO_SUBINDEX)
                } else if self.od.read_only.contains(&(index, sub)) {
                    Some(ABORT_READ_ONLY)
                } else if self.od.strict_lengths && self.od.get(index, sub).map(|v| v.len()) != Some(data.len()) {
                    Some(ABORT_LEN_MISMATCH)
                } else {
                    None
                };
                self.events.push(SdoEvent { kind: "download", index, sub, len: data.len(), abort: code });
                if let Some(code) = code {
                    return self.abort(index, sub, code, rc);
                }
                self.od.set(index, sub, &data);
                let mut r = vec![self.quirks.download_response_command << 5];
                r.extend_from_slice(&index.to_le_bytes());
                r.push(sub);
                r.extend_from_slice(&[0; 4]);
                self.coe(COE_SDO_RESPONSE, &r, rc)
            }
            // abort from the master: no answer is defined; drop any transfer state
            4 => {
                self.upload = None;
                Vec::new()
            }
            _ => self.abort(index, sub, ABORT_COMMAND, rc),
        }
    }

    /// SDO information service, minimal: OD list (every list type returns all indices; list 0
    /// returns the five counts) with fragmentation per ETG.1000.6 5.6.3.3 (list type only in the
    /// first fragment, "incomplete" bit + fragments-left counter), object description. Entry
    /// description is refused with an SDO-info error.
    fn sdo_info(&mut self, b: &[u8], tx_size: usize, rc: u8) -> Vec<Vec<u8>> {
        if b.len() < 4 {
            return vec![self.abort(0, 0, ABORT_COMMAND, rc)];
        }
        let opcode = b[0] & 0x7f;
        match opcode {
            1 => {
                let list = u16::from_le_bytes([*b.get(4).unwrap_or(&0), *b.get(5).unwrap_or(&0)]);
                let idx = self.od.indices();
                let mut data = list.to_le_bytes().to_vec();
                if list == 0 {
                    for _ in 0..5 {
                        data.extend_from_slice(&(idx.len() as u16).to_le_bytes());
                    }
                } else {
                    for i in &idx {
                        data.extend_from_slice(&i.to_le_bytes());
                    }
                }
                // payload room per telegram: mailbox - 6 (mbx hdr) - 2 (CoE hdr) - 4 (SDO info hdr), even
                let room = (tx_size.saturating_sub(12) & !1).max(2);
                let chunks: Vec<&[u8]> = data.chunks(room).collect();
                let n = chunks.len();
                let mut out = Vec::new();
                for (k, c) in chunks.iter().enumerate() {
                    let left = (n - 1 - k) as u16;
                    let mut r = vec![0x02 | if left > 0 { 0x80 } else { 0 }, 0];
                    r.extend_from_slice(&left.to_le_bytes());
                    r.extend_from_slice(c);
                    out.push(self.coe(COE_SDO_INFO, &r, rc));
                }
                out
            }
            3 => {
                let index = u16::from_le_bytes([*b.get(4).unwrap_or(&0), *b.get(5).unwrap_or(&0)]);
                if !self.od.has_index(index) {
                    let mut r = vec![0x07, 0, 0, 0];
                    r.extend_from_slice(&ABORT_NO_OBJECT.to_le_bytes());
                    return vec![self.coe(COE_SDO_INFO, &r, rc)];
                }
                let max_sub = self.od.entries.range((index, 0)..=(index, 255)).map(|k| k.0 .1).max().unwrap_or(0);
                let mut r = vec![0x04, 0, 0, 0];
                r.extend_from_slice(&index.to_le_bytes());
                r.extend_from_slice(&0u16.to_le_bytes()); // data type unknown
                r.push(max_sub);
                r.push(if max_sub > 0 { 9 } else { 7 }); // record / variable
                r.extend_from_slice(format!("OBJ{:04X}", index).as_bytes());
                vec![self.coe(COE_SDO_INFO, &r, rc)]
            }
            _ => {
                let mut r = vec![0x07, 0, 0, 0];
                r.extend_from_slice(&ABORT_UNSUPPORTED_ACCESS.to_le_bytes());
                vec![self.coe(COE_SDO_INFO, &r, rc)]
            }
        }
    }
}

/// Build a raw CoE telegram (for scripted replies): mailbox header + CoE header + body.
pub fn raw_coe(counter: u8, service: u8, body: &[u8]) -> Vec<u8> {
    let mut p = ((service as u16) << 12).to_le_bytes().to_vec();
    p.extend_from_slice(body);
    mbx_frame(&p, MBX_TYPE_COE, counter)
}
