//! SII / EEPROM image builder (ETG.1000.6 5.4, ETG.2010).
//!
//! `DeviceDesc` is the single description a simulated device is made from: it yields the EEPROM
//! bytes (`build`) laid out the way real images are (compare `/repo/dumps/eeprom/*.hex`), and the
//! device model derives its sync manager / PDO / object dictionary defaults from it.
//!
//! Layout produced (word addresses):
//! 0x00 PDI control, 0x01 PDI config, 0x02 sync impulse, 0x03 PDI config 2, 0x04 station alias,
//! 0x07 checksum (CRC-8 poly 0x07 init 0xFF over bytes 0..14, low byte), 0x08.. vendor, product,
//! revision, serial (u32 each), 0x14..0x17 bootstrap mailbox, 0x18..0x1B standard mailbox
//! (receive offset/size, send offset/size), 0x1C mailbox protocols, 0x3E size (kbit - 1),
//! 0x3F version, 0x40.. categories `[type u16][len words u16][data]`, end marker 0xFFFF, then
//! 0xFF fill up to `image_size`.

pub const CAT_STRINGS: u16 = 10;
pub const CAT_GENERAL: u16 = 30;
pub const CAT_FMMU: u16 = 40;
pub const CAT_SYNCM: u16 = 41;
pub const CAT_FMMU_EX: u16 = 42;
pub const CAT_SYNC_UNIT: u16 = 43;
pub const CAT_TXPDO: u16 = 50;
pub const CAT_RXPDO: u16 = 51;
pub const CAT_DC: u16 = 60;
pub const CAT_END: u16 = 0xFFFF;

/// Mailbox protocol bits (word 0x1C).
pub const MBX_AOE: u16 = 0x01;
pub const MBX_EOE: u16 = 0x02;
pub const MBX_COE: u16 = 0x04;
pub const MBX_FOE: u16 = 0x08;
pub const MBX_SOE: u16 = 0x10;
pub const MBX_VOE: u16 = 0x20;

/// General category "CoE details" bits.
pub const COE_ENABLE_SDO: u8 = 0x01;
pub const COE_ENABLE_SDO_INFO: u8 = 0x02;
pub const COE_ENABLE_PDO_ASSIGN: u8 = 0x04;
pub const COE_ENABLE_PDO_CONFIG: u8 = 0x08;
pub const COE_ENABLE_UPLOAD_AT_STARTUP: u8 = 0x10;
pub const COE_ENABLE_COMPLETE_ACCESS: u8 = 0x20;

/// Sync manager usage types (SyncM category, last byte).
pub const SM_UNUSED: u8 = 0;
pub const SM_MBX_WRITE: u8 = 1; // master -> device
pub const SM_MBX_READ: u8 = 2; // device -> master
pub const SM_OUTPUTS: u8 = 3; // process data, master writes
pub const SM_INPUTS: u8 = 4; // process data, master reads

/// FMMU usage (FMMU category).
pub const FMMU_UNUSED: u8 = 0;
pub const FMMU_OUTPUTS: u8 = 1;
pub const FMMU_INPUTS: u8 = 2;
pub const FMMU_SM_STATUS: u8 = 3;

#[derive(Clone, Debug, PartialEq)]
pub struct MailboxDesc {
    /// "Standard receive mailbox": master -> device (SM0).
    pub rx_offset: u16,
    pub rx_size: u16,
    /// "Standard send mailbox": device -> master (SM1).
    pub tx_offset: u16,
    pub tx_size: u16,
    pub protocols: u16,
}

#[derive(Clone, Debug, PartialEq)]
pub struct GeneralDesc {
    pub group_idx: u8,
    pub image_idx: u8,
    /// String index of the order code; this is what `SubDevice::name()` returns.
    pub order_idx: u8,
    /// String index of the long name; `SubDevice::description()`.
    pub name_idx: u8,
    pub coe_details: u8,
    pub foe_details: u8,
    pub eoe_details: u8,
    pub soe_channels: u8,
    pub ds402_channels: u8,
    pub sysman_class: u8,
    pub flags: u8,
    pub ebus_current_ma: i16,
    /// 4 bits per port (0 unused, 1 MII, 3 EBUS), ETG.2010 offset 0x10.
    pub physical_ports: u16,
    pub physical_memory_addr: u16,
}

impl Default for GeneralDesc {
    fn default() -> Self {
        GeneralDesc {
            group_idx: 0,
            image_idx: 0,
            order_idx: 1,
            name_idx: 1,
            coe_details: 0,
            foe_details: 0,
            eoe_details: 0,
            soe_channels: 0,
            ds402_channels: 0,
            sysman_class: 0,
            flags: 0,
            ebus_current_ma: 0,
            physical_ports: 0x0011,
            physical_memory_addr: 0,
        }
    }
}

#[derive(Clone, Debug, PartialEq)]
pub struct SmDesc {
    pub start: u16,
    pub len: u16,
    /// SM control byte (0x26 mailbox write, 0x22 mailbox read, 0x64/0x24 outputs, 0x20/0x00 inputs).
    pub control: u8,
    /// Bit 0 = enable.
    pub enable: u8,
    pub usage: u8,
}

#[derive(Clone, Debug, PartialEq)]
pub struct PdoEntryDesc {
    pub index: u16,
    pub sub: u8,
    pub name_idx: u8,
    pub data_type: u8,
    pub bit_len: u8,
    pub flags: u16,
}

#[derive(Clone, Debug, PartialEq)]
pub struct PdoDesc {
    pub index: u16,
    pub sm: u8,
    pub sync: u8,
    pub name_idx: u8,
    pub flags: u16,
    pub entries: Vec<PdoEntryDesc>,
}

impl PdoDesc {
    pub fn bit_len(&self) -> u32 {
        self.entries.iter().map(|e| e.bit_len as u32).sum()
    }
    /// A PDO of `n` byte-wide entries `entry_index:1..=n`.
    pub fn bytes(index: u16, sm: u8, entry_index: u16, n: usize) -> PdoDesc {
        PdoDesc {
            index,
            sm,
            sync: 0,
            name_idx: 0,
            flags: 0,
            entries: (0..n)
                .map(|i| PdoEntryDesc {
                    index: entry_index,
                    sub: (i + 1) as u8,
                    name_idx: 0,
                    data_type: 5, // UNSIGNED8
                    bit_len: 8,
                    flags: 0,
                })
                .collect(),
        }
    }
}

#[derive(Clone, Debug, PartialEq)]
pub struct DeviceDesc {
    pub pdi_control: u16,
    pub pdi_config: u16,
    pub sync_impulse: u16,
    pub pdi_config2: u16,
    pub alias: u16,
    pub vendor_id: u32,
    pub product_id: u32,
    pub revision: u32,
    pub serial: u32,
    /// String 1 of the strings category.
    pub name: String,
    /// Strings 2.. of the strings category.
    pub extra_strings: Vec<String>,
    /// Emit a strings category at all (false: device has no strings -> master invents a name).
    pub with_strings: bool,
    pub bootstrap_mailbox: [u16; 4],
    pub mailbox: Option<MailboxDesc>,
    pub general: Option<GeneralDesc>,
    pub sync_managers: Vec<SmDesc>,
    pub fmmu_usage: Vec<u8>,
    /// FMMU_EX category: 3 bytes per entry (op-only flags, SM index, sub item), see ETG.1020.
    pub fmmu_ex: Option<Vec<[u8; 3]>>,
    pub rx_pdos: Vec<PdoDesc>,
    pub tx_pdos: Vec<PdoDesc>,
    /// Unknown/vendor categories placed before the standard ones: (type, data; padded to words).
    pub leading_categories: Vec<(u16, Vec<u8>)>,
    /// ... and after them (before the end marker).
    pub trailing_categories: Vec<(u16, Vec<u8>)>,
    /// Word 0x3E; `None` = derived from `image_size`.
    pub size_word: Option<u16>,
    pub version: u16,
    /// Total image length in bytes (0xFF filled). Grown automatically if the content is longer.
    pub image_size: usize,
    /// Write a wrong checksum on purpose.
    pub corrupt_checksum: bool,
}

impl Default for DeviceDesc {
    fn default() -> Self {
        DeviceDesc {
            pdi_control: 0x0d00,
            pdi_config: 0,
            sync_impulse: 0,
            pdi_config2: 0,
            alias: 0,
            vendor_id: 0x0000_0abc,
            product_id: 0x0000_0001,
            revision: 1,
            serial: 0,
            name: "SIMDEV".into(),
            extra_strings: vec![],
            with_strings: true,
            bootstrap_mailbox: [0; 4],
            mailbox: None,
            general: Some(GeneralDesc::default()),
            sync_managers: vec![],
            fmmu_usage: vec![],
            fmmu_ex: None,
            rx_pdos: vec![],
            tx_pdos: vec![],
            leading_categories: vec![],
            trailing_categories: vec![],
            size_word: None,
            version: 1,
            image_size: 2048,
            corrupt_checksum: false,
        }
    }
}

/// CRC-8, poly 0x07, init 0xFF, no reflection, no final xor (the SII checksum).
pub fn sii_crc(bytes: &[u8]) -> u8 {
    let mut crc = 0xFFu8;
    for b in bytes {
        crc ^= *b;
        for _ in 0..8 {
            crc = if crc & 0x80 != 0 { (crc << 1) ^ 0x07 } else { crc << 1 };
        }
    }
    crc
}

fn put16(v: &mut [u8], word: usize, x: u16) {
    v[word * 2..word * 2 + 2].copy_from_slice(&x.to_le_bytes());
}
fn put32(v: &mut [u8], word: usize, x: u32) {
    v[word * 2..word * 2 + 4].copy_from_slice(&x.to_le_bytes());
}

fn push_cat(out: &mut Vec<u8>, ty: u16, data: &[u8]) {
    let mut d = data.to_vec();
    if d.len() % 2 == 1 {
        d.push(0xFF); // real images pad odd categories with 0xFF (see ek1100.hex strings)
    }
    out.extend_from_slice(&ty.to_le_bytes());
    out.extend_from_slice(&((d.len() / 2) as u16).to_le_bytes());
    out.extend_from_slice(&d);
}

fn pdo_bytes(pdos: &[PdoDesc]) -> Vec<u8> {
    let mut d = Vec::new();
    for p in pdos {
        d.extend_from_slice(&p.index.to_le_bytes());
        d.push(p.entries.len() as u8);
        d.push(p.sm);
        d.push(p.sync);
        d.push(p.name_idx);
        d.extend_from_slice(&p.flags.to_le_bytes());
        for e in &p.entries {
            d.extend_from_slice(&e.index.to_le_bytes());
            d.push(e.sub);
            d.push(e.name_idx);
            d.push(e.data_type);
            d.push(e.bit_len);
            d.extend_from_slice(&e.flags.to_le_bytes());
        }
    }
    d
}

impl DeviceDesc {
    /// All strings of the strings category, 1-based index = position + 1.
    pub fn strings(&self) -> Vec<String> {
        let mut s = vec![self.name.clone()];
        s.extend(self.extra_strings.iter().cloned());
        s
    }

    pub fn build(&self) -> Vec<u8> {
        let mut img = vec![0u8; 0x80];
        put16(&mut img, 0x00, self.pdi_control);
        put16(&mut img, 0x01, self.pdi_config);
        put16(&mut img, 0x02, self.sync_impulse);
        put16(&mut img, 0x03, self.pdi_config2);
        put16(&mut img, 0x04, self.alias);
        let mut crc = sii_crc(&img[0..14]);
        if self.corrupt_checksum {
            crc ^= 0x5a;
        }
        put16(&mut img, 0x07, crc as u16);
        put32(&mut img, 0x08, self.vendor_id);
        put32(&mut img, 0x0A, self.product_id);
        put32(&mut img, 0x0C, self.revision);
        put32(&mut img, 0x0E, self.serial);
        for (i, w) in self.bootstrap_mailbox.iter().enumerate() {
            put16(&mut img, 0x14 + i, *w);
        }
        if let Some(m) = &self.mailbox {
            put16(&mut img, 0x18, m.rx_offset);
            put16(&mut img, 0x19, m.rx_size);
            put16(&mut img, 0x1A, m.tx_offset);
            put16(&mut img, 0x1B, m.tx_size);
            put16(&mut img, 0x1C, m.protocols);
        }
        put16(&mut img, 0x3F, self.version);

        let mut cats = Vec::new();
        for (ty, d) in &self.leading_categories {
            push_cat(&mut cats, *ty, d);
        }
        if self.with_strings {
            let strings = self.strings();
            let mut d = vec![strings.len() as u8];
            for s in &strings {
                assert!(s.len() < 256, "SII string too long");
                d.push(s.len() as u8);
                d.extend_from_slice(s.as_bytes());
            }
            push_cat(&mut cats, CAT_STRINGS, &d);
        }
        if let Some(g) = &self.general {
            let mut d = vec![0u8; 32];
            d[0] = g.group_idx;
            d[1] = g.image_idx;
            d[2] = g.order_idx;
            d[3] = g.name_idx;
            d[5] = g.coe_details;
            d[6] = g.foe_details;
            d[7] = g.eoe_details;
            d[8] = g.soe_channels;
            d[9] = g.ds402_channels;
            d[10] = g.sysman_class;
            d[11] = g.flags;
            d[12..14].copy_from_slice(&g.ebus_current_ma.to_le_bytes());
            d[14] = g.group_idx;
            d[16..18].copy_from_slice(&g.physical_ports.to_le_bytes());
            d[18..20].copy_from_slice(&g.physical_memory_addr.to_le_bytes());
            push_cat(&mut cats, CAT_GENERAL, &d);
        }
        if !self.fmmu_usage.is_empty() {
            push_cat(&mut cats, CAT_FMMU, &self.fmmu_usage);
        }
        if !self.sync_managers.is_empty() {
            let mut d = Vec::new();
            for sm in &self.sync_managers {
                d.extend_from_slice(&sm.start.to_le_bytes());
                d.extend_from_slice(&sm.len.to_le_bytes());
                d.push(sm.control);
                d.push(0); // status, don't care
                d.push(sm.enable);
                d.push(sm.usage);
            }
            push_cat(&mut cats, CAT_SYNCM, &d);
        }
        if let Some(ex) = &self.fmmu_ex {
            let d: Vec<u8> = ex.iter().flat_map(|e| e.iter().copied()).collect();
            push_cat(&mut cats, CAT_FMMU_EX, &d);
        }
        if !self.tx_pdos.is_empty() {
            push_cat(&mut cats, CAT_TXPDO, &pdo_bytes(&self.tx_pdos));
        }
        if !self.rx_pdos.is_empty() {
            push_cat(&mut cats, CAT_RXPDO, &pdo_bytes(&self.rx_pdos));
        }
        for (ty, d) in &self.trailing_categories {
            push_cat(&mut cats, *ty, d);
        }
        cats.extend_from_slice(&CAT_END.to_le_bytes());
        img.extend_from_slice(&cats);

        let mut size = self.image_size.max(img.len());
        size = (size + 127) / 128 * 128;
        img.resize(size, 0xFF);
        let size_word = self.size_word.unwrap_or((size / 128 - 1) as u16);
        put16(&mut img, 0x3E, size_word);
        img
    }

    /// Sum of PDO bit lengths assigned to sync manager `sm` in the EEPROM PDO categories.
    pub fn eeprom_pdo_bits(&self, sm: u8) -> u32 {
        self.rx_pdos
            .iter()
            .chain(self.tx_pdos.iter())
            .filter(|p| p.sm == sm)
            .map(|p| p.bit_len())
            .sum()
    }

    pub fn has_coe(&self) -> bool {
        self.mailbox.as_ref().map_or(false, |m| m.protocols & MBX_COE != 0 && m.tx_size > 0)
    }

    /// Coupler-like device: no mailbox, no process data.
    pub fn coupler(name: &str) -> DeviceDesc {
        DeviceDesc { name: name.into(), ..Default::default() }
    }

    /// Simple I/O device without mailbox: SM0 = outputs (if any), next SM = inputs; PDOs from
    /// EEPROM (0x1600 / 0x1A00, byte entries).
    pub fn simple_io(name: &str, out_bytes: usize, in_bytes: usize) -> DeviceDesc {
        let mut d = DeviceDesc { name: name.into(), ..Default::default() };
        let mut sm = 0u8;
        if out_bytes > 0 {
            d.sync_managers.push(SmDesc {
                start: 0x0f00,
                len: out_bytes as u16,
                control: 0x44,
                enable: 1,
                usage: SM_OUTPUTS,
            });
            d.fmmu_usage.push(FMMU_OUTPUTS);
            d.rx_pdos.push(PdoDesc::bytes(0x1600, sm, 0x7000, out_bytes));
            sm += 1;
        }
        if in_bytes > 0 {
            d.sync_managers.push(SmDesc {
                start: 0x1000,
                len: in_bytes as u16,
                control: 0x00,
                enable: 1,
                usage: SM_INPUTS,
            });
            d.fmmu_usage.push(FMMU_INPUTS);
            d.tx_pdos.push(PdoDesc::bytes(0x1A00, sm, 0x6000, in_bytes));
        }
        d
    }

    /// Mailbox + CoE device: SM0/SM1 mailboxes of `mbx_size` bytes, SM2 outputs, SM3 inputs; the
    /// PDO assignment is read by the master through CoE (0x1C12/0x1C13). EEPROM PDO categories
    /// are present as well (as on real devices).
    pub fn coe_io(name: &str, mbx_size: u16, out_bytes: usize, in_bytes: usize) -> DeviceDesc {
        let mut d = DeviceDesc { name: name.into(), ..Default::default() };
        d.mailbox = Some(MailboxDesc {
            rx_offset: 0x1000,
            rx_size: mbx_size,
            tx_offset: 0x1000 + mbx_size.max(0x80),
            tx_size: mbx_size,
            protocols: MBX_COE,
        });
        d.general = Some(GeneralDesc {
            coe_details: COE_ENABLE_SDO | COE_ENABLE_SDO_INFO | COE_ENABLE_PDO_ASSIGN | COE_ENABLE_PDO_CONFIG,
            ..Default::default()
        });
        let m = d.mailbox.clone().unwrap();
        d.sync_managers = vec![
            SmDesc { start: m.rx_offset, len: m.rx_size, control: 0x26, enable: 1, usage: SM_MBX_WRITE },
            SmDesc { start: m.tx_offset, len: m.tx_size, control: 0x22, enable: 1, usage: SM_MBX_READ },
            SmDesc { start: 0x1800, len: out_bytes as u16, control: 0x64, enable: 1, usage: SM_OUTPUTS },
            SmDesc { start: 0x1c00, len: in_bytes as u16, control: 0x20, enable: 1, usage: SM_INPUTS },
        ];
        d.fmmu_usage = vec![FMMU_OUTPUTS, FMMU_INPUTS, FMMU_SM_STATUS];
        if out_bytes > 0 {
            d.rx_pdos.push(PdoDesc::bytes(0x1600, 2, 0x7000, out_bytes));
        }
        if in_bytes > 0 {
            d.tx_pdos.push(PdoDesc::bytes(0x1A00, 3, 0x6000, in_bytes));
        }
        d
    }
}

/// One category found in an image: (type, byte offset of the data, byte length of the data).
pub type CatRef = (u16, usize, usize);

/// Independent walk over the category list of an image (used to sanity-check the builder against
/// real dumps). Stops at the end marker or at the end of the image.
pub fn walk_categories(img: &[u8]) -> Vec<CatRef> {
    let mut out = Vec::new();
    let mut pos = 0x80usize;
    while pos + 4 <= img.len() {
        let ty = u16::from_le_bytes([img[pos], img[pos + 1]]);
        if ty == CAT_END {
            break;
        }
        let len = u16::from_le_bytes([img[pos + 2], img[pos + 3]]) as usize * 2;
        out.push((ty, pos + 4, len));
        pos += 4 + len;
    }
    out
}

/// Decode the fixed area + categories of an image back into a `DeviceDesc` (best effort; strings
/// lossy). `decode(build(d))` reproduces `d` for descriptions made by this module, and it also
/// digests the real dumps, which is what ties the builder's layout to reality.
pub fn decode(img: &[u8]) -> DeviceDesc {
    let w = |word: usize| u16::from_le_bytes([img[word * 2], img[word * 2 + 1]]);
    let d = |word: usize| u32::from_le_bytes([img[word * 2], img[word * 2 + 1], img[word * 2 + 2], img[word * 2 + 3]]);
    let mut out = DeviceDesc {
        pdi_control: w(0),
        pdi_config: w(1),
        sync_impulse: w(2),
        pdi_config2: w(3),
        alias: w(4),
        vendor_id: d(8),
        product_id: d(0xA),
        revision: d(0xC),
        serial: d(0xE),
        name: String::new(),
        with_strings: false,
        bootstrap_mailbox: [w(0x14), w(0x15), w(0x16), w(0x17)],
        general: None,
        size_word: Some(w(0x3E)),
        version: w(0x3F),
        image_size: img.len(),
        corrupt_checksum: sii_crc(&img[0..14]) as u16 != w(7),
        ..Default::default()
    };
    if w(0x18) | w(0x19) | w(0x1A) | w(0x1B) | w(0x1C) != 0 {
        out.mailbox = Some(MailboxDesc {
            rx_offset: w(0x18),
            rx_size: w(0x19),
            tx_offset: w(0x1A),
            tx_size: w(0x1B),
            protocols: w(0x1C),
        });
    }
    let mut seen_std = false;
    for (ty, off, len) in walk_categories(img) {
        let c = &img[off..(off + len).min(img.len())];
        match ty {
            CAT_STRINGS => {
                seen_std = true;
                out.with_strings = true;
                let n = c[0] as usize;
                let mut p = 1;
                let mut strings = Vec::new();
                for _ in 0..n {
                    let l = c[p] as usize;
                    strings.push(String::from_utf8_lossy(&c[p + 1..p + 1 + l]).to_string());
                    p += 1 + l;
                }
                if !strings.is_empty() {
                    out.name = strings.remove(0);
                }
                out.extra_strings = strings;
            }
            CAT_GENERAL => {
                seen_std = true;
                out.general = Some(GeneralDesc {
                    group_idx: c[0],
                    image_idx: c[1],
                    order_idx: c[2],
                    name_idx: c[3],
                    coe_details: c[5],
                    foe_details: c[6],
                    eoe_details: c[7],
                    soe_channels: c[8],
                    ds402_channels: c[9],
                    sysman_class: c[10],
                    flags: c[11],
                    ebus_current_ma: i16::from_le_bytes([c[12], c[13]]),
                    physical_ports: u16::from_le_bytes([c[16], c[17]]),
                    physical_memory_addr: u16::from_le_bytes([c[18], c[19]]),
                });
            }
            CAT_FMMU => {
                seen_std = true;
                out.fmmu_usage = c.to_vec();
            }
            CAT_SYNCM => {
                seen_std = true;
                out.sync_managers = c
                    .chunks_exact(8)
                    .map(|s| SmDesc {
                        start: u16::from_le_bytes([s[0], s[1]]),
                        len: u16::from_le_bytes([s[2], s[3]]),
                        control: s[4],
                        enable: s[6],
                        usage: s[7],
                    })
                    .collect();
            }
            CAT_FMMU_EX => {
                seen_std = true;
                out.fmmu_ex = Some(c.chunks_exact(3).map(|e| [e[0], e[1], e[2]]).collect());
            }
            CAT_TXPDO | CAT_RXPDO => {
                seen_std = true;
                let mut pdos = Vec::new();
                let mut p = 0;
                while p + 8 <= c.len() {
                    let n = c[p + 2] as usize;
                    let mut pdo = PdoDesc {
                        index: u16::from_le_bytes([c[p], c[p + 1]]),
                        sm: c[p + 3],
                        sync: c[p + 4],
                        name_idx: c[p + 5],
                        flags: u16::from_le_bytes([c[p + 6], c[p + 7]]),
                        entries: vec![],
                    };
                    p += 8;
                    for _ in 0..n {
                        if p + 8 > c.len() {
                            break;
                        }
                        pdo.entries.push(PdoEntryDesc {
                            index: u16::from_le_bytes([c[p], c[p + 1]]),
                            sub: c[p + 2],
                            name_idx: c[p + 3],
                            data_type: c[p + 4],
                            bit_len: c[p + 5],
                            flags: u16::from_le_bytes([c[p + 6], c[p + 7]]),
                        });
                        p += 8;
                    }
                    pdos.push(pdo);
                }
                if ty == CAT_TXPDO {
                    out.tx_pdos = pdos;
                } else {
                    out.rx_pdos = pdos;
                }
            }
            other => {
                if seen_std {
                    out.trailing_categories.push((other, c.to_vec()));
                } else {
                    out.leading_categories.push((other, c.to_vec()));
                }
            }
        }
    }
    out
}
