//! Virtual clock: an `embassy-time` driver whose time only moves when the executor says so.
//! State is thread-local so several cases can run on several threads of one process.
use std::cell::RefCell;
use std::task::Waker;

struct VClock;

thread_local! {
    static NOW: RefCell<u64> = const { RefCell::new(0) };
    static TIMERS: RefCell<Vec<(u64, Waker)>> = const { RefCell::new(Vec::new()) };
}

impl embassy_time_driver::Driver for VClock {
    fn now(&self) -> u64 {
        NOW.with(|n| *n.borrow())
    }
    fn schedule_wake(&self, at: u64, waker: &Waker) {
        TIMERS.with(|t| t.borrow_mut().push((at, waker.clone())));
    }
}

embassy_time_driver::time_driver_impl!(static DRIVER: VClock = VClock);

/// Current virtual time in microseconds (tick rate 1 MHz).
pub fn now_us() -> u64 {
    NOW.with(|n| *n.borrow())
}

pub fn reset() {
    NOW.with(|n| *n.borrow_mut() = 0);
    TIMERS.with(|t| t.borrow_mut().clear());
}

pub fn advance(us: u64) {
    NOW.with(|n| *n.borrow_mut() += us);
    fire_due();
}

/// Wake every timer whose deadline has passed.
pub fn fire_due() {
    let now = now_us();
    let due: Vec<Waker> = TIMERS.with(|t| {
        let mut t = t.borrow_mut();
        let mut due = Vec::new();
        let mut i = 0;
        while i < t.len() {
            if t[i].0 <= now {
                due.push(t.swap_remove(i).1);
            } else {
                i += 1;
            }
        }
        due
    });
    for w in due {
        w.wake();
    }
}

/// Jump to the earliest pending timer deadline (if any) and fire it. Returns false when no
/// timer is pending.
pub fn jump_to_next_timer() -> bool {
    let next = TIMERS.with(|t| t.borrow().iter().map(|x| x.0).min());
    match next {
        None => false,
        Some(at) => {
            NOW.with(|n| {
                let mut n = n.borrow_mut();
                if at > *n {
                    *n = at;
                }
            });
            fire_due();
            true
        }
    }
}
