//! Printers for Gallina literals (everything is Z; lists in `[a; b]` form).
pub fn z(n: i128) -> String {
    if n < 0 { format!("({})", n) } else { format!("{}", n) }
}
pub fn zlist<I: IntoIterator<Item = i128>>(xs: I) -> String {
    let v: Vec<String> = xs.into_iter().map(z).collect();
    format!("[{}]", v.join("; "))
}
pub fn bytes(xs: &[u8]) -> String {
    zlist(xs.iter().map(|b| *b as i128))
}
pub fn list(xs: &[String]) -> String {
    format!("[{}]", xs.join("; "))
}
pub fn opt(x: Option<String>) -> String {
    match x { Some(s) => format!("(Some {})", s), None => "None".into() }
}
pub fn b(x: bool) -> &'static str { if x { "true" } else { "false" } }
