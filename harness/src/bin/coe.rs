//! C15/C16 harness: the public SDO API (sdo_read, sdo_write, sdo_write_array, sdo_read_array,
//! sdo_info_*) against a scripted mailbox device on the wire.
//! mode `srv`: a faithful CoE server over a random object (expedited / normal / segmented with any
//!   segment sizes, aborts, emergencies, wrong-object replies, stale out-mailbox data).
//! mode `adv`: arbitrary and field-mutated replies.
use ethercrab::error::Error;
use ethercrab::subdevice_group::{NoDc, Op};
use ethercrab::{verif, MainDevice, MainDeviceConfig, SubDeviceGroup, Timeouts};
use std::collections::VecDeque;
use std::time::Duration;
use vharness::net::{self, RunEnd};
use vharness::rng::Rng;

const WR: u16 = 0x1000;
const RD: u16 = 0x1400;

fn hex(b: &[u8]) -> String { b.iter().map(|x| format!("{:02x}", x)).collect() }

fn mbx_hdr(len: u16, counter: u8) -> Vec<u8> { vec![len as u8, (len >> 8) as u8, 0, 0, 0, 0x03 | (counter << 4)] }

fn expedited_reply(counter: u8, idx: u16, sub: u8, data: &[u8]) -> Vec<u8> {
    let mut r = mbx_hdr(10, counter);
    r.extend_from_slice(&[0x00, 0x30]);
    r.push(0x43 | (((4 - data.len()) as u8) << 2));      // upload response, expedited, size indicated
    r.extend_from_slice(&idx.to_le_bytes()); r.push(sub);
    let mut d = data.to_vec(); d.resize(4, 0); r.extend_from_slice(&d);
    r
}
fn normal_reply(counter: u8, idx: u16, sub: u8, total: u32, data: &[u8]) -> Vec<u8> {
    let mut r = mbx_hdr(10 + data.len() as u16, counter);
    r.extend_from_slice(&[0x00, 0x30]);
    r.push(0x41);                                          // upload response, size indicated, not expedited
    r.extend_from_slice(&idx.to_le_bytes()); r.push(sub);
    r.extend_from_slice(&total.to_le_bytes()); r.extend_from_slice(data);
    r
}
fn segment_reply(counter: u8, toggle: bool, last: bool, data: &[u8], cmd: u8) -> Vec<u8> {
    let (len, unused) = if data.len() < 7 { (10u16, (7 - data.len()) as u8) } else { (3 + data.len() as u16, 0) };
    let mut r = mbx_hdr(len, counter);
    r.extend_from_slice(&[0x00, 0x30]);
    r.push((last as u8) | (unused << 1) | ((toggle as u8) << 4) | (cmd << 5));
    let mut d = data.to_vec(); if d.len() < 7 { d.resize(7, 0); } r.extend_from_slice(&d);
    r
}
fn abort_reply(counter: u8, idx: u16, sub: u8, code: u32) -> Vec<u8> {
    let mut r = mbx_hdr(10, counter);
    r.extend_from_slice(&[0x00, 0x20]);                   // service: SDO request
    r.push(0x80);
    r.extend_from_slice(&idx.to_le_bytes()); r.push(sub); r.extend_from_slice(&code.to_le_bytes());
    r
}
fn emergency_reply(counter: u8, code: u16, reg: u8) -> Vec<u8> {
    let mut r = mbx_hdr(10, counter);
    r.extend_from_slice(&[0x00, 0x10]);
    r.extend_from_slice(&code.to_le_bytes()); r.push(reg); r.extend_from_slice(&[1, 2, 3, 4, 5]);
    r
}
fn download_reply(counter: u8, idx: u16, sub: u8) -> Vec<u8> {
    let mut r = mbx_hdr(10, counter);
    r.extend_from_slice(&[0x00, 0x30]);
    r.push(0x60);
    r.extend_from_slice(&idx.to_le_bytes()); r.push(sub); r.extend_from_slice(&[0, 0, 0, 0]);
    r
}

/// the device: answers the mailbox protocol registers; `respond` turns each request into replies
struct Dev<'a> {
    len: u16,
    out: VecDeque<Vec<u8>>,
    requests: Vec<Vec<u8>>,
    delivered: Vec<Vec<u8>>,
    per_req: Vec<Vec<Vec<u8>>>,
    respond: Box<dyn FnMut(&[u8], usize) -> Vec<Vec<u8>> + 'a>,
    pad: u8,
    reads: usize,
}

impl<'a> Dev<'a> {
    fn wire(&mut self, f: &[u8]) -> Option<Vec<u8>> {
        vharness::clock::advance(10);
        let mut r = f.to_vec();
        r[6] |= 2;
        let mut pos = 16;
        loop {
            let lf = u16::from_le_bytes([f[pos + 6], f[pos + 7]]);
            let len = (lf & 0x7ff) as usize;
            let cmd = f[pos];
            let ado = u16::from_le_bytes([f[pos + 4], f[pos + 5]]);
            let mut data = f[pos + 10..pos + 10 + len].to_vec();
            match (cmd, ado) {
                (4, 0x0805) => { data[0] = 0; }
                (4, 0x080d) => { self.reads += 1; data[0] = if self.out.is_empty() { 0 } else { 0x08 }; }
                (4, a) if a == RD => {
                    // the sync manager hands the buffer back only when its LAST byte has been read
                    let rep = if len >= self.len as usize { self.out.pop_front().unwrap_or_default() } else { self.out.front().cloned().unwrap_or_default() };
                    let mut d = rep.clone(); d.resize(len, self.pad); d.truncate(len);
                    if len >= self.len as usize { self.delivered.push(rep); }
                    data = d;
                }
                (5, a) if a == WR => {
                    let n = self.requests.len();
                    let reps = (self.respond)(&data, n);
                    self.requests.push(data.clone());
                    self.per_req.push(reps.clone());
                    self.out.extend(reps);
                }
                _ => {}
            }
            r[pos + 10..pos + 10 + len].copy_from_slice(&data);
            r[pos + 10 + len] = 1;
            if lf & 0x8000 == 0 { break; }
            pos += 12 + len;
        }
        if self.reads > 3000 { return None; }
        Some(r)
    }
}

macro_rules! read_n {
    ($sd:expr, $idx:expr, $sub:expr, $n:expr, [$($k:literal),*]) => {
        match $n { $( $k => $sd.sdo_read::<[u8; $k]>($idx, $sub).await.map(|v| v.to_vec()), )* _ => unreachable!() }
    };
}

const SIZES: [usize; 14] = [1, 2, 3, 4, 5, 7, 8, 9, 16, 33, 64, 100, 200, 512];

fn run_case(rng: &mut Rng, mode: &str, release: bool) -> String {
    vharness::clock::reset();
    let (mut tx, mut rx, pl) = net::storage::<4, 1200>();
    let timeouts = Timeouts { mailbox_response: Duration::from_millis(2), mailbox_echo: Duration::from_millis(2), wait_loop_delay: Duration::from_millis(0), ..Timeouts::default() };
    let md: &'static MainDevice<'static> = Box::leak(Box::new(MainDevice::new(pl, timeouts, MainDeviceConfig::default())));
    md.verif_set_network(1, 0);
    let mlen: u16 = match rng.below(5) { 0 => 16 + rng.below(8) as u16, 1 => 1024, 2 if mode == "adv" => rng.range(6, 15) as u16, _ => rng.range(24, 300) as u16 };
    let wmlen: u16 = match rng.below(4) { 0 => rng.range(16, mlen.max(16) as u64) as u16, 1 => mlen + rng.range(1, 64) as u16, _ => mlen };
    let sd0 = verif::subdevice_with_mailbox(0x1000, (WR, wmlen), (RD, mlen), rng.chance(1, 2));
    let group: SubDeviceGroup<1, 8, ethercrab::DefaultLock, Op, NoDc> = SubDeviceGroup::verif_new([sd0].into_iter(), 0, 0, 0);
    let idx = rng.edgy(16) as u16;
    let sub = rng.edgy(8) as u8;
    let n = match rng.below(6) { 0 => rng.range(0, 4) as usize, 1 => rng.range(5, 40) as usize, 2 => rng.range(40, 512) as usize, _ => *rng.pick(&SIZES) };
    let obj = rng.bytes(n);
    let tn = if rng.chance(3, 4) && SIZES.contains(&n) { n } else { *rng.pick(&SIZES) };
    let op = if mode == "adv" { rng.below(6) } else { match rng.below(10) { 0 => 1, 1 => 2, 2 => 3, 3 => 4, _ => 0 } };
    // 0 read, 1 write, 2 write_array, 3 read_array, 4 sdo_info list / quantities
    let kind = if mode == "adv" { let k = rng.below(19); 100 + if k >= 16 { 11 } else if k >= 14 { 13 } else { k } } else { rng.below(12) };
    // faithful kinds: 0..5 plain, 6 abort, 7 emergency, 8 wrong object, 9 stale data first, 10 segment command 3, 11 first data in initiate response
    let upload_mode = rng.below(3);      // 0 expedited when possible, 1 normal when it fits, 2 segmented
    let seg_sizes: Vec<usize> = (0..600).map(|_| match rng.below(4) { 0 => rng.range(1, 6) as usize, 1 => 7, _ => rng.range(1, (mlen as usize).saturating_sub(9).max(1) as u64) as usize }).collect();
    let abort_code = *rng.pick(&[0x05030000u32, 0x06010000, 0x06020000, 0x06090011, 0x08000000, 0x12345678]);
    let mut adv_rng = Rng::new(rng.next());
    let (em_code, em_reg) = (if rng.chance(1, 3) { 0x8130u16 } else { rng.edgy(16) as u16 }, rng.byte());
    let sticky: (u16, u8, bool, u32, usize, Vec<u8>) = (*rng.pick(&[3u16, 4, 9, 10, 10, 10, 11, 12]), *rng.pick(&[0u8, 1, 6, 7, 7, 7]), rng.chance(1, 8), if rng.chance(3, 4) { tn as u32 } else { *rng.pick(&[5u32, 40, 600, 70000]) }, rng.below(3) as usize, rng.bytes(12));
    let mut seg_pos = 0usize;
    let mut seg_i = 0usize;
    let objc = obj.clone();
    let wr_vals: Vec<u32> = (0..rng.range(0, 5)).map(|_| rng.next() as u32).collect();
    let wlen = *rng.pick(&[1usize, 2, 4]);
    let respond = move |req: &[u8], _k: usize| -> Vec<Vec<u8>> {
        if req.len() < 12 { return vec![]; }
        let counter = (req[5] >> 4) & 7;
        let service = req[7] >> 4;
        let cmdbyte = req[8];
        let (ridx, rsub) = (u16::from_le_bytes([req[9], req[10]]), req[11]);
        let mut reps = Vec::new();
        if kind >= 100 {
            // adversarial: start from a plausible reply, then damage it
            let mut r = match adv_rng.below(5) {
                0 => expedited_reply(counter, ridx, rsub, &objc[..objc.len().min(4)]),
                1 => normal_reply(counter, ridx, rsub, objc.len() as u32, &objc[..objc.len().min((mlen as usize).saturating_sub(16))]),
                2 => segment_reply(counter, adv_rng.chance(1, 2), adv_rng.chance(1, 3), &objc[..objc.len().min(9)], 0),
                3 => { let mut r = mbx_hdr(8 + 10, counter); r.extend_from_slice(&[0x00, 0x80, 0x02 | ((adv_rng.chance(1, 2) as u8) << 7), 0, 0, 0]); r.extend_from_slice(&adv_rng.bytes(12)); r }
                _ => { let l = adv_rng.range(0, 40) as usize; adv_rng.bytes(l) }
            };
            match kind - 100 {
                0 => { let k = adv_rng.below(r.len() as u64 + 1) as usize; r.truncate(k); }
                1 => { if r.len() >= 2 { let v = adv_rng.edgy(16) as u16; r[0] = v as u8; r[1] = (v >> 8) as u8; } }
                2 => { if r.len() > 7 { r[7] = adv_rng.byte(); } }
                3 => { if r.len() > 8 { r[8] = adv_rng.byte(); } }
                4 => { if r.len() > 5 { r[5] = adv_rng.byte(); } }
                5 => { for _ in 0..3 { if !r.is_empty() { let i = adv_rng.below(r.len() as u64) as usize; r[i] = adv_rng.byte(); } } }
                6 => { if r.len() >= 2 { r[0] = *adv_rng.pick(&[0u8, 1, 2, 3, 7, 8, 9, 10]); r[1] = 0; } }
                7 => { if r.len() >= 16 { let v = adv_rng.edgy(32) as u32; r[12..16].copy_from_slice(&v.to_le_bytes()); } }
                8 => { r = segment_reply(counter, false, false, &[], 0); if r.len() > 1 { r[0] = 3; } }    // endless empty segments
                9 => { r = { let mut x = mbx_hdr(8 + 4, counter); x.extend_from_slice(&[0x00, 0x80, 0x82, 0, 1, 0, 1, 0, 2, 0]); x }; }  // endless fragments
                10 => { r = { let mut x = mbx_hdr(8, counter); x.extend_from_slice(&[0x00, 0x80, 0x04, 0, 0, 0]); x }; }  // other op code forever
                13 => {
                    // a well-formed normal upload response for the right object whose mailbox length
                    // field promises more (or less) data than the mailbox holds
                    if service == 2 && (cmdbyte >> 5) == 2 {
                        let total = if objc.len() as u64 <= tn as u64 { objc.len() as u32 } else { tn as u32 };
                        r = normal_reply(counter, ridx, rsub, total, &objc[..objc.len().min((mlen as usize).saturating_sub(16)).min(total as usize)]);
                        let l = match adv_rng.below(3) { 0 => (mlen as i64 - 8 + adv_rng.below(24) as i64).max(0) as u16, 1 => adv_rng.edgy(16) as u16, _ => 10 + total as u16 + adv_rng.below(6) as u16 };
                        r[0] = l as u8; r[1] = (l >> 8) as u8;
                    }
                }
                11 | 12 => {
                    // a segmented upload whose every segment is the same template: length field 3..12, any
                    // "unused bytes" count, mostly not the last one
                    if service == 2 && (cmdbyte >> 5) == 2 {
                        r = normal_reply(counter, ridx, rsub, sticky.3, &objc[..objc.len().min(sticky.4).min((mlen as usize).saturating_sub(16))]);
                    } else {
                        let mut x = mbx_hdr(sticky.0, counter);
                        x.extend_from_slice(&[0x00, 0x30]);
                        x.push((sticky.2 as u8) | (sticky.1 << 1) | (cmdbyte & 0x10));
                        x.extend_from_slice(&sticky.5);
                        r = x;
                    }
                }
                _ => {}
            }
            reps.push(r);
            return reps;
        }
        if kind == 9 { /* stale data is queued before the request, see below */ }
        if service == 2 && (cmdbyte >> 5) == 2 {
            // initiate upload
            seg_pos = 0; seg_i = 0;
            match kind {
                6 => reps.push(abort_reply(counter, ridx, rsub, abort_code)),
                7 => reps.push(emergency_reply(counter, em_code, em_reg)),
                8 => reps.push(expedited_reply(counter, ridx.wrapping_add(1), rsub, &objc[..objc.len().min(4)])),
                _ => {
                    let fits = objc.len() + 16 <= mlen as usize;
                    if objc.len() <= 4 && !objc.is_empty() && upload_mode == 0 { reps.push(expedited_reply(counter, ridx, rsub, &objc)); }
                    else if fits && upload_mode != 2 { reps.push(normal_reply(counter, ridx, rsub, objc.len() as u32, &objc)); }
                    else {
                        // segmented: the initiate response announces the size; kind 11 also carries the first bytes
                        let first = if kind == 11 { objc.len().min(mlen as usize - 16).min(objc.len().saturating_sub(1)) } else { 0 };
                        seg_pos = first;
                        reps.push(normal_reply(counter, ridx, rsub, objc.len() as u32, &objc[..first]));
                    }
                }
            }
        } else if service == 2 && (cmdbyte >> 5) == 3 {
            let toggle = cmdbyte & 0x10 != 0;
            let take = seg_sizes[seg_i % seg_sizes.len()].min(objc.len() - seg_pos).min(mlen as usize - 9);
            seg_i += 1;
            let last = seg_pos + take >= objc.len();
            reps.push(segment_reply(counter, toggle, last, &objc[seg_pos..seg_pos + take], if kind == 10 { 3 } else { 0 }));
            seg_pos += take;
        } else if service == 2 && (cmdbyte >> 5) == 1 {
            match kind { 6 => reps.push(abort_reply(counter, ridx, rsub, abort_code)), 7 => reps.push(emergency_reply(counter, em_code, em_reg)), _ => reps.push(download_reply(counter, ridx, rsub)) }
        } else if service == 8 {
            // SDO info: object list in fragments of the mailbox size
            let list: Vec<u8> = objc.iter().copied().chain(std::iter::repeat(0)).take((objc.len() / 2) * 2).collect();
            let per = ((mlen as usize).saturating_sub(12) / 2 * 2).max(2);
            let mut body = vec![req[12], req[13]]; body.extend_from_slice(&list);
            let chunks: Vec<&[u8]> = body.chunks(per).collect();
            for (i, c) in chunks.iter().enumerate() {
                let left = chunks.len() - 1 - i;
                let mut r = mbx_hdr(6 + c.len() as u16, counter);
                r.extend_from_slice(&[0x00, 0x80]);
                r.push(0x02 | (((left > 0) as u8) << 7)); r.push(0);
                r.extend_from_slice(&(left as u16).to_le_bytes());
                r.extend_from_slice(c);
                reps.push(r);
            }
        }
        reps
    };
    let mut dev = Dev { len: mlen, out: VecDeque::new(), requests: vec![], delivered: vec![], per_req: vec![], respond: Box::new(respond), pad: rng.byte(), reads: 0 };
    let mut stale: Vec<Vec<u8>> = vec![];
    if kind == 9 { for _ in 0..rng.range(1, 3) { let l = rng.range(0, 20) as usize; let b = rng.bytes(l); stale.push(b.clone()); dev.out.push_back(b); } }
    let _ = dev.len;
    let mut out: Vec<i64> = Vec::new();
    let mut log = Vec::new();
    let wr_vals2 = wr_vals.clone();
    let r = {
        let out = &mut out;
        let g = &group;
        let mut wire = |f: &[u8]| dev.wire(f);
        std::panic::catch_unwind(std::panic::AssertUnwindSafe(|| net::run(async move {
            let sd = g.subdevice(md, 0)?;
            match op {
                0 => { let v = read_n!(sd, idx, sub, tn, [1, 2, 3, 4, 5, 7, 8, 9, 16, 33, 64, 100, 200, 512])?; out.extend(v.iter().map(|b| *b as i64)); }
                1 => { match wlen { 1 => sd.sdo_write(idx, sub, wr_vals2.first().copied().unwrap_or(7) as u8).await?, 2 => sd.sdo_write(idx, sub, wr_vals2.first().copied().unwrap_or(7) as u16).await?, _ => sd.sdo_write(idx, sub, wr_vals2.first().copied().unwrap_or(7)).await? } }
                2 => { sd.sdo_write_array(idx, &wr_vals2).await?; }
                3 => { let v = sd.sdo_read_array::<u16, 6>(idx).await?; out.extend(v.iter().map(|b| *b as i64)); }
                // a bounded variable-length destination: whatever the device announces, at most 8 bytes (totality only, no model)
                5 => { let v = sd.sdo_read::<heapless::Vec<u8, 8>>(idx, sub).await?; out.push(v.len() as i64); out.extend(v.iter().map(|b| *b as i64)); }
                _ => {
                    if idx & 1 == 0 {
                        let v = sd.sdo_info_object_description_list(ethercrab::ObjectDescriptionListQuery::All).await?;
                        match v { Some(v) => { out.push(v.len() as i64); out.extend(v.iter().map(|b| *b as i64)); } None => out.push(-1) }
                    } else {
                        let v = sd.sdo_info_object_quantities().await?;
                        match v { Some(c) => { out.extend([c.all as i64, c.rx_pdo_mappable as i64, c.tx_pdo_mappable as i64]); } None => out.push(-1) }
                    }
                }
            }
            Ok::<(), Error>(())
        }, &mut tx, &mut rx, &mut wire, &mut log, 20_000)))
    };
    let res = match r {
        Err(_) => "\"res\":\"PANIC\"".to_string(),
        Ok(RunEnd::Done(Ok(()))) => "\"res\":\"Ok\"".to_string(),
        Ok(RunEnd::Done(Err(e))) => format!("\"res\":\"Err\",\"err\":\"{:?}\"", e),
        Ok(_) => "\"res\":\"HANG\"".to_string(),
    };
    let dev_reads = dev.reads;
    format!("{{\"kind\":\"coe\",\"status_polls\":{dev_reads},\"mode\":\"{}\",\"release\":{},\"mlen\":{},\"wmlen\":{},\"op\":{},\"skind\":{},\"idx\":{},\"sub\":{},\"obj\":\"{}\",\"tn\":{},\"upload_mode\":{},\"wlen\":{},\"wr_vals\":{:?},\"abort\":{},\"em_code\":{},\"em_reg\":{},\"requests\":[{}],\"replies\":[{}],\"stale\":[{}],\"per_req\":[{}],\"pad\":{},{},\"out\":{:?},\"frames\":{}}}",
        mode, release, mlen, wmlen, op, kind, idx, sub, hex(&obj), tn, upload_mode, wlen, wr_vals, abort_code, em_code, em_reg,
        dev.requests.iter().map(|r| format!("\"{}\"", hex(r))).collect::<Vec<_>>().join(","),
        dev.delivered.iter().map(|r| format!("\"{}\"", hex(r))).collect::<Vec<_>>().join(","),
        stale.iter().map(|r| format!("\"{}\"", hex(r))).collect::<Vec<_>>().join(","),
        dev.per_req.iter().map(|rs| format!("[{}]", rs.iter().map(|r| format!("\"{}\"", hex(r))).collect::<Vec<_>>().join(","))).collect::<Vec<_>>().join(","),
        dev.pad, res, out, log.len())
}

fn main() {
    let args: Vec<String> = std::env::args().collect();
    let mode = args[1].clone();
    let seed: u64 = args[2].parse().unwrap();
    let n: usize = args[3].parse().unwrap();
    let release = !cfg!(debug_assertions);
    std::panic::set_hook(Box::new(|_| {}));
    let mut rng = Rng::new(seed);
    for _ in 0..n { println!("{}", run_case(&mut rng, &mode, release)); }
}
