//! C10 harness: (a) the state summaries of TxRxResponse on arbitrary state lists, (b) group state
//! transitions against scripted AL behaviour (accept after k polls, refuse, stall, fall back,
//! absent), through the typestate API on groups built by the verification hook.
use ethercrab::subdevice_group::{NoDc, Op};
use ethercrab::{verif, DcSupport, DcSync, MainDevice, MainDeviceConfig, PduStorage, SubDeviceGroup, SubDeviceState, Timeouts};
use std::time::Duration;
use vharness::net::{self, RunEnd};
use vharness::rng::Rng;

const MAX_SD: usize = 64;

fn bytes_json(b: &[u8]) -> String {
    format!("[{}]", b.iter().map(|x| x.to_string()).collect::<Vec<_>>().join(","))
}

fn summaries(rng: &mut Rng, k: usize) -> String {
    let len = if k < 400 { k % 4 + 1 } else { rng.below(9) as usize };
    let states: Vec<u8> = (0..len).map(|j| {
        if k < 16usize.pow(3) && len <= 3 { ((k / 16usize.pow(j as u32)) % 16) as u8 }
        else { match rng.below(3) { 0 => *rng.pick(&[0u8, 1, 2, 3, 4, 8]), 1 => 8, _ => rng.below(16) as u8 } }
    }).collect();
    let r = verif::response::<MAX_SD>(&states, 0);
    let single = r.group_in_single_state().map(|s| u8::from(s) as i64).unwrap_or(-1);
    let ins = [SubDeviceState::None, SubDeviceState::Init, SubDeviceState::PreOp, SubDeviceState::Bootstrap, SubDeviceState::SafeOp, SubDeviceState::Op];
    let v: Vec<String> = ins.iter().map(|s| (r.is_in_state(*s) as u8).to_string()).collect();
    format!("{{\"kind\":\"summary\",\"states\":{},\"obs\":[{},{},{},{}]}}", bytes_json(&states), r.group_state().bits(), single, r.all_op() as u8, v.join(","))
}

#[derive(Clone)]
struct Script {
    /// AL status values answered on successive polls (the last one repeats)
    polls: Vec<u8>,
    refuse: bool,
    absent: bool,
    polled: usize,
}

fn transition<const D: usize>(rng: &mut Rng) -> String {
    vharness::clock::reset();
    let storage: &'static PduStorage<4, D> = Box::leak(Box::new(PduStorage::<4, D>::new()));
    let (mut tx, mut rx, pl) = storage.try_split().unwrap();
    let limit = rng.range(3, 12) as usize;
    let dt_us = 100u64;
    let timeouts = Timeouts { state_transition: Duration::from_micros(dt_us * limit as u64), wait_loop_delay: Duration::from_millis(0), ..Timeouts::default() };
    let md: &'static MainDevice<'static> = Box::leak(Box::new(MainDevice::new(pl, timeouts, MainDeviceConfig::default())));
    let n = match rng.below(4) { 0 => rng.below(3) as usize, 1 => rng.range(1, 6) as usize, 2 => rng.range(1, MAX_SD as u64) as usize, _ => rng.range(1, 12) as usize };
    let addrs: Vec<u16> = (0..n).map(|i| 0x1000 + i as u16).collect();
    // target: Op group -> SafeOp (4)
    let target: u8 = 4;
    let mut scripts: Vec<Script> = (0..n).map(|_| {
        let kind = rng.below(12);
        let polls = match kind {
            0 => vec![8],                                   // stall in OP
            1 => vec![target, 2],                           // accept then fall back
            2 => { let k = rng.below(4) as usize; let mut v = vec![8; k]; v.push(target); v }  // accept after k polls
            3 => vec![8, 8, 8, 8, 8, 8, 8, 8, 8, 8, 8, 8, 8, target],
            4 => vec![0x10 | 8],                            // error flag, wrong state
            5 => vec![0x10 | target],                       // right state with error flag
            _ => vec![target],
        };
        Script { polls, refuse: kind == 6 && rng.chance(1, 3), absent: kind == 7 && rng.chance(1, 3), polled: 0 }
    }).collect();
    md.verif_set_network(n as u16, 0);
    let group: SubDeviceGroup<MAX_SD, 64, ethercrab::DefaultLock, Op, NoDc> = SubDeviceGroup::verif_new(
        addrs.iter().map(|a| verif::subdevice(*a, DcSupport::None, DcSync::Disabled)), 0, 0, 0);
    let mut answers: Vec<String> = Vec::new();
    let mut frames: Vec<String> = Vec::new();
    let mut last_round_states: Vec<(u16, u8)> = Vec::new();
    let mut writes: Vec<(u16, u8)> = Vec::new();
    let mut wire = |f: &[u8]| -> Option<Vec<u8>> {
        vharness::clock::advance(dt_us);
        let mut r = f.to_vec();
        r[6] |= 2;
        let mut pos = 16;
        let mut fa = Vec::new();
        let mut fd = Vec::new();
        loop {
            let lf = u16::from_le_bytes([f[pos + 6], f[pos + 7]]);
            let len = (lf & 0x7ff) as usize;
            let cmd = f[pos];
            let adp = u16::from_le_bytes([f[pos + 2], f[pos + 3]]);
            let ado = u16::from_le_bytes([f[pos + 4], f[pos + 5]]);
            let idx = (adp.wrapping_sub(0x1000)) as usize;
            let mut data = f[pos + 10..pos + 10 + len].to_vec();
            let mut wkc = 0u16;
            if idx < scripts.len() && !scripts[idx].absent {
                let s = &mut scripts[idx];
                wkc = 1;
                match (cmd, ado) {
                    (5, 0x0120) => { writes.push((adp, data[0])); if s.refuse { data[0] |= 0x10; } }
                    (4, 0x0134) => { data = vec![0x11, 0x00]; }
                    (4, 0x0130) => {
                        let v = s.polls[s.polled.min(s.polls.len() - 1)];
                        s.polled += 1;
                        data = vec![v, 0];
                        last_round_states.push((adp, v));
                    }
                    _ => {}
                }
            } else if cmd == 5 { writes.push((adp, data[0])); }
            r[pos + 10..pos + 10 + len].copy_from_slice(&data);
            r[pos + 10 + len] = wkc as u8;
            r[pos + 11 + len] = (wkc >> 8) as u8;
            fa.push(format!("[{},{}]", bytes_json(&data), wkc));
            fd.push(match (cmd, ado) { (5, 0x0120) => format!("[1,{},{}]", adp, f[pos + 10] & 0x0f), (4, 0x0134) => format!("[2,{}]", adp), (4, 0x0130) => format!("[3,{}]", adp), _ => format!("[9,{},{}]", cmd, ado) });
            if lf & 0x8000 == 0 { break; }
            pos += 12 + len;
        }
        answers.push(format!("[{}]", fa.join(",")));
        frames.push(format!("[{}]", fd.join(",")));
        Some(r)
    };
    let mut log = Vec::new();
    let r = net::run(group.into_safe_op(md), &mut tx, &mut rx, &mut wire, &mut log, 4000);
    let res = match r {
        RunEnd::Done(Ok(_)) => "\"res\":\"Ok\"".to_string(),
        RunEnd::Done(Err(e)) => format!("\"res\":\"Err\",\"err\":\"{:?}\"", e),
        _ => "\"res\":\"HANG\"".to_string(),
    };
    let elapsed = vharness::clock::now_us();
    let nframes = frames.len();
    format!("{{\"kind\":\"transition\",\"cap\":{},\"subs\":{:?},\"desired\":{},\"limit\":{},\"answers\":[{}],\"frames\":[{}],{},\"elapsed_us\":{},\"timeout_us\":{},\"nframes\":{},\"writes\":{:?},\"scripts\":[{}]}}",
        D, addrs, target, limit, answers.join(","), frames.join(","), res, elapsed, dt_us * limit as u64, nframes, writes.iter().map(|w| vec![w.0 as u32, w.1 as u32]).collect::<Vec<_>>(),
        scripts.iter().map(|s| format!("{{\"polls\":{:?},\"refuse\":{},\"absent\":{}}}", s.polls, s.refuse, s.absent)).collect::<Vec<_>>().join(","))
}

/// MainDevice::wait_for_state: the broadcast wait.  Every device has a script of AL status bytes;
/// the network ORs them into the BRD answer and counts the devices that are present.
fn waitall(rng: &mut Rng) -> String {
    vharness::clock::reset();
    let storage: &'static PduStorage<4, 64> = Box::leak(Box::new(PduStorage::<4, 64>::new()));
    let (mut tx, mut rx, pl) = storage.try_split().unwrap();
    let limit = rng.range(3, 12) as usize;
    let dt_us = 100u64;
    let timeouts = Timeouts { state_transition: Duration::from_micros(dt_us * limit as u64), wait_loop_delay: Duration::from_millis(0), ..Timeouts::default() };
    let md: &'static MainDevice<'static> = Box::leak(Box::new(MainDevice::new(pl, timeouts, MainDeviceConfig::default())));
    let n = match rng.below(4) { 0 => rng.below(3) as usize, 1 => rng.range(1, 6) as usize, _ => rng.range(1, 20) as usize };
    let (target, want) = *rng.pick(&[(1u8, SubDeviceState::Init), (2, SubDeviceState::PreOp), (4, SubDeviceState::SafeOp), (8, SubDeviceState::Op), (4, SubDeviceState::SafeOp), (8, SubDeviceState::Op)]);
    let prev: u8 = match target { 1 => *rng.pick(&[2u8, 4, 8]), 2 => 1, 4 => *rng.pick(&[2u8, 8]), _ => 4 };
    let quiet = rng.chance(1, 2);
    let mut scripts: Vec<Script> = (0..n).map(|_| {
        let kind = if quiet { 2 + rng.below(2) * 6 } else { rng.below(14) };
        let polls = match kind {
            0 => vec![prev],                                // stalls
            1 => vec![target, prev],                        // accepts then falls back
            2 => { let k = rng.below(4) as usize; let mut v = vec![prev; k]; v.push(target); v }
            3 => { let mut v = vec![prev; 13]; v.push(target); v }
            4 => vec![0x10 | prev],                         // error flag, old state
            5 => vec![0x10 | target],                       // requested state WITH error flag
            6 => { let k = rng.below(3) as usize; let mut v = vec![prev; k]; v.push(0x10 | target); v }
            9 => vec![0x20 | target],                       // device identification bit set, no error
            _ => vec![target],
        };
        Script { polls, refuse: false, absent: kind == 7 && rng.chance(1, 2), polled: 0 }
    }).collect();
    // the MainDevice's own count of devices: normally right, sometimes one more (a device vanished)
    let counted = if rng.chance(1, 10) { n + 1 } else { n };
    md.verif_set_network(counted as u16, 0);
    let mut answers: Vec<String> = Vec::new();
    let mut frames: Vec<String> = Vec::new();
    let mut seen: Vec<Vec<u8>> = Vec::new();
    let mut wire = |f: &[u8]| -> Option<Vec<u8>> {
        vharness::clock::advance(dt_us);
        let mut r = f.to_vec();
        r[6] |= 2;
        let pos = 16;
        let lf = u16::from_le_bytes([f[pos + 6], f[pos + 7]]);
        let len = (lf & 0x7ff) as usize;
        let cmd = f[pos];
        let adp = u16::from_le_bytes([f[pos + 2], f[pos + 3]]);
        let ado = u16::from_le_bytes([f[pos + 4], f[pos + 5]]);
        let mut data = f[pos + 10..pos + 10 + len].to_vec();
        let mut wkc = 0u16;
        match (cmd, ado) {
            (7, 0x0130) => {
                let mut round = Vec::new();
                for s in scripts.iter_mut() {
                    if s.absent { continue; }
                    let v = s.polls[s.polled.min(s.polls.len() - 1)];
                    s.polled += 1;
                    data[0] |= v;
                    wkc += 1;
                    round.push(v);
                }
                seen.push(round);
                frames.push("[[1]]".to_string());
            }
            (4, 0x0134) => {
                let idx = adp.wrapping_sub(0x1000) as usize;
                if idx < scripts.len() && !scripts[idx].absent { data = vec![0x11, 0x00]; wkc = 1; }
                frames.push(format!("[[2,{}]]", adp));
            }
            _ => { frames.push(format!("[[9,{},{}]]", cmd, ado)); }
        }
        r[pos + 10..pos + 10 + len].copy_from_slice(&data);
        r[pos + 10 + len] = wkc as u8;
        r[pos + 11 + len] = (wkc >> 8) as u8;
        answers.push(format!("[[{},{}]]", bytes_json(&data), wkc));
        Some(r)
    };
    let mut log = Vec::new();
    let r = net::run(md.wait_for_state(want), &mut tx, &mut rx, &mut wire, &mut log, 4000);
    let res = match r {
        RunEnd::Done(Ok(_)) => "\"res\":\"Ok\"".to_string(),
        RunEnd::Done(Err(e)) => format!("\"res\":\"Err\",\"err\":\"{:?}\"", e),
        _ => "\"res\":\"HANG\"".to_string(),
    };
    let elapsed = vharness::clock::now_us();
    format!("{{\"kind\":\"waitall\",\"n\":{},\"counted\":{},\"desired\":{},\"limit\":{},\"answers\":[{}],\"frames\":[{}],{},\"elapsed_us\":{},\"timeout_us\":{},\"seen\":{:?},\"scripts\":[{}]}}",
        n, counted, target, limit, answers.join(","), frames.join(","), res, elapsed, dt_us * limit as u64, seen,
        scripts.iter().map(|s| format!("{{\"polls\":{:?},\"absent\":{}}}", s.polls, s.absent)).collect::<Vec<_>>().join(","))
}

fn main() {
    let args: Vec<String> = std::env::args().collect();
    let seed: u64 = args[1].parse().unwrap();
    let n: usize = args[2].parse().unwrap();
    let mut rng = Rng::new(seed);
    for k in 0..n {
        if k % 2 == 0 {
            println!("{}", summaries(&mut rng, k / 2));
        } else if k % 4 == 3 {
            println!("{}", waitall(&mut rng));
        } else {
            let line = match rng.below(16) {
                12 => transition::<28>(&mut rng),     // no room for a state request at all
                13 => transition::<29>(&mut rng),
                14 => transition::<30>(&mut rng),     // exactly one check per frame
                0 | 4 | 8 => transition::<44>(&mut rng),      // 2 checks per frame
                1 | 5 | 9 => transition::<100>(&mut rng),     // 6 checks per frame
                2 | 6 | 10 => transition::<300>(&mut rng),
                _ => transition::<1100>(&mut rng),
            };
            println!("{}", line);
        }
    }
}
