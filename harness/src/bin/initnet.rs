//! C09 / C08 harness: MainDevice::init on random simulated networks split over 1..3 groups.
//! mode `c09`: discovery, addressing, per-device records, grouping, capacity.
//! mode `c08`: additionally PDO configuration into SAFE-OP/OP and the process-data mapping.
use ethercrab::error::Error;
use ethercrab::{DcSupport, MainDevice, MainDeviceConfig, PduStorage, SubDeviceGroup, Timeouts};
use std::time::Duration;
use vharness::net::{self, RunEnd};
use vharness::rng::Rng;
use vharness::sim::device::{DcKind, Device, EscInfo, REG_AL_STATUS, REG_STATION_ADDR};
use vharness::sim::eeprom::DeviceDesc;
use vharness::sim::segment::Segment;

const MAXDEV: usize = 8;
const MAXPDI: usize = 64;
const FRAME: usize = PduStorage::element_size(1100);

#[derive(Default)]
struct Groups {
    a: SubDeviceGroup<MAXDEV, MAXPDI>,
    b: SubDeviceGroup<MAXDEV, MAXPDI>,
    c: SubDeviceGroup<MAXDEV, MAXPDI>,
}

fn now_ns() -> u64 { 1_000_000_000 + vharness::clock::now_us() * 1000 }

fn dc_code(d: DcSupport) -> u8 { match d { DcSupport::None => 0, DcSupport::RefOnly => 1, DcSupport::Bits32 => 2, DcSupport::Bits64 => 3 } }

fn c09_case(rng: &mut Rng, release: bool) -> String {
    vharness::clock::reset();
    let (mut tx, mut rx, pl) = net::storage::<16, FRAME>();
    let timeouts = Timeouts { state_transition: Duration::from_millis(200), ..Timeouts::default() };
    let md: &'static MainDevice<'static> = Box::leak(Box::new(MainDevice::new(pl, timeouts, MainDeviceConfig { dc_static_sync_iterations: 3, ..Default::default() })));
    let n = match rng.below(6) { 0 => 0, 1 => MAXDEV + rng.range(1, 2) as usize, 2 => MAXDEV, _ => rng.range(1, MAXDEV as u64) as usize };
    let ng = rng.range(1, 3) as usize;
    let assign: Vec<usize> = (0..n).map(|_| rng.below(ng as u64) as usize).collect();
    let dup = rng.chance(1, 3);
    let mut devs: Vec<Device> = Vec::new();
    for i in 0..n {
        let mut d = match rng.below(3) { 0 => DeviceDesc::coupler(&format!("CPL{:02}", i)), 1 => DeviceDesc::simple_io(&format!("IO{:02}x", i), rng.below(3) as usize, 1 + rng.below(2) as usize), _ => DeviceDesc::coe_io(&format!("COE{:02}", i), 64, 1, 1) };
        d.vendor_id = rng.edgy(32) as u32; d.product_id = rng.edgy(32) as u32; d.revision = rng.edgy(32) as u32; d.serial = rng.edgy(32) as u32;
        d.alias = if rng.chance(1, 2) { rng.edgy(16) as u16 } else { 0 };
        if rng.chance(1, 6) { d.with_strings = false; }
        if rng.chance(1, 4) { d.leading_categories.push((0x0800, rng.bytes(6))); }
        let kind = *rng.pick(&[DcKind::None, DcKind::Bits32, DcKind::Bits64]);
        let mut dev = Device::new(d, EscInfo::default().with_dc(kind));
        dev.sii.read8 = rng.chance(1, 2);
        dev.set_station_address(if dup { *rng.pick(&[0x1001u16, 0x1000, 0x1003]) } else { rng.edgy(16) as u16 });
        devs.push(dev);
    }
    let mut seg = Segment::chain(devs);
    let assign2 = assign.clone();
    let mut log = Vec::new();
    let r = std::panic::catch_unwind(std::panic::AssertUnwindSafe(|| net::run(async move {
        md.init::<MAXDEV, _>(now_ns, Groups::default(), |g: &Groups, sd| {
            let pos = (sd.configured_address() - 0x1000) as usize;
            Ok(match assign2.get(pos).copied().unwrap_or(0) { 0 => &g.a, 1 => &g.b, _ => &g.c })
        }).await
    }, &mut tx, &mut rx, &mut seg, &mut log, 400_000)));
    let sim: Vec<String> = seg.devices.iter().map(|d| format!("{{\"station\":{},\"al\":{},\"name\":{:?},\"strings\":{},\"ident\":[{},{},{},{}],\"alias\":{},\"dc\":{}}}",
        d.u16_at(REG_STATION_ADDR), d.mem[REG_AL_STATUS as usize] & 0x0f, d.desc.name, d.desc.with_strings, d.desc.vendor_id, d.desc.product_id, d.desc.revision, d.desc.serial, d.desc.alias,
        match d.dc.kind { DcKind::None => 0, DcKind::Bits32 => 2, DcKind::Bits64 => 3 })).collect();
    let (res, groups) = match r {
        Err(_) => ("\"res\":\"PANIC\"".to_string(), String::new()),
        Ok(RunEnd::Done(Ok(g))) => {
            let one = |grp: &SubDeviceGroup<MAXDEV, MAXPDI>| format!("[{}]", grp.iter(md).map(|sd| { let id = sd.identity();
                format!("{{\"addr\":{},\"name\":{:?},\"ident\":[{},{},{},{}],\"alias\":{},\"dc\":{}}}", sd.configured_address(), sd.name(), id.vendor_id, id.product_id, id.revision, id.serial, sd.alias_address(), dc_code(sd.dc_support())) }).collect::<Vec<_>>().join(","));
            ("\"res\":\"Ok\"".to_string(), format!("{},{},{}", one(&g.a), one(&g.b), one(&g.c)))
        }
        Ok(RunEnd::Done(Err(e))) => (format!("\"res\":\"Err\",\"err\":\"{:?}\"", e), String::new()),
        Ok(_) => ("\"res\":\"HANG\"".to_string(), String::new()),
    };
    format!("{{\"kind\":\"c09\",\"release\":{},\"n\":{},\"max\":{},\"ng\":{},\"assign\":{:?},\"dup\":{},\"reported\":{},\"sim\":[{}],{},\"groups\":[{}],\"frames\":{}}}",
        release, n, MAXDEV, ng, assign, dup, md.num_subdevices(), sim.join(","), res, groups, log.len())
}

fn main() {
    let args: Vec<String> = std::env::args().collect();
    let mode = args[1].clone();
    let seed: u64 = args[2].parse().unwrap();
    let n: usize = args[3].parse().unwrap();
    let release = !cfg!(debug_assertions);
    std::panic::set_hook(Box::new(|_| {}));
    let mut rng = Rng::new(seed);
    for _ in 0..n {
        println!("{}", match mode.as_str() { _ => c09_case(&mut rng, release) });
    }
}
