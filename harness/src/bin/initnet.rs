//! C09 / C08 harness: MainDevice::init on random simulated networks split over 1..3 groups.
//! mode `c09`: discovery, addressing, per-device records, grouping, capacity.
//! mode `c08`: additionally PDO configuration into SAFE-OP/OP and the process-data mapping.
use ethercrab::error::Error;
use ethercrab::{DcSupport, MainDevice, MainDeviceConfig, PduStorage, SubDeviceGroup, Timeouts};
use std::time::Duration;
use vharness::net::{self, RunEnd};
use vharness::rng::Rng;
use vharness::sim::device::{DcKind, Device, EscInfo, REG_AL_STATUS, REG_STATION_ADDR};
use vharness::sim::eeprom::DeviceDesc;
use vharness::sim::segment::Segment;

const MAXDEV: usize = 8;
const MAXPDI: usize = 64;
const FRAME: usize = PduStorage::element_size(1100);

#[derive(Default)]
struct Groups {
    a: SubDeviceGroup<MAXDEV, MAXPDI>,
    b: SubDeviceGroup<MAXDEV, MAXPDI>,
    c: SubDeviceGroup<MAXDEV, MAXPDI>,
}

fn now_ns() -> u64 { 1_000_000_000 + vharness::clock::now_us() * 1000 }

fn dc_code(d: DcSupport) -> u8 { match d { DcSupport::None => 0, DcSupport::RefOnly => 1, DcSupport::Bits32 => 2, DcSupport::Bits64 => 3 } }

fn c09_case(rng: &mut Rng, release: bool) -> String {
    vharness::clock::reset();
    let (mut tx, mut rx, pl) = net::storage::<16, FRAME>();
    let timeouts = Timeouts { state_transition: Duration::from_millis(200), ..Timeouts::default() };
    let md: &'static MainDevice<'static> = Box::leak(Box::new(MainDevice::new(pl, timeouts, MainDeviceConfig { dc_static_sync_iterations: 3, ..Default::default() })));
    let n = match rng.below(6) { 0 => 0, 1 => MAXDEV + rng.range(1, 2) as usize, 2 => MAXDEV, _ => rng.range(1, MAXDEV as u64) as usize };
    let ng = rng.range(1, 3) as usize;
    let assign: Vec<usize> = (0..n).map(|_| rng.below(ng as u64) as usize).collect();
    let dup = rng.chance(1, 3);
    let mut devs: Vec<Device> = Vec::new();
    for i in 0..n {
        let mut d = match rng.below(3) { 0 => DeviceDesc::coupler(&format!("CPL{:02}", i)), 1 => DeviceDesc::simple_io(&format!("IO{:02}x", i), rng.below(3) as usize, 1 + rng.below(2) as usize), _ => DeviceDesc::coe_io(&format!("COE{:02}", i), 64, 1, 1) };
        d.vendor_id = rng.edgy(32) as u32; d.product_id = rng.edgy(32) as u32; d.revision = rng.edgy(32) as u32; d.serial = rng.edgy(32) as u32;
        d.alias = if rng.chance(1, 2) { rng.edgy(16) as u16 } else { 0 };
        if rng.chance(1, 6) { d.with_strings = false; }
        if rng.chance(1, 4) { d.leading_categories.push((0x0800, rng.bytes(6))); }
        let kind = *rng.pick(&[DcKind::None, DcKind::Bits32, DcKind::Bits64]);
        let mut dev = Device::new(d, EscInfo::default().with_dc(kind));
        dev.sii.read8 = rng.chance(1, 2);
        dev.set_station_address(if dup { *rng.pick(&[0x1001u16, 0x1000, 0x1003]) } else { rng.edgy(16) as u16 });
        devs.push(dev);
    }
    // a line, or (one network in three) a tree with junctions on ports 1..3; `devs` is in creation
    // order, the ring order (and with it the station addresses) is the segment's
    let tree = n >= 3 && rng.chance(1, 3);
    let mut seg = if tree {
        let mut parents: Vec<Option<(usize, u8)>> = vec![None];
        let mut used: Vec<[bool; 4]> = vec![[true, false, false, false]];
        for i in 1..n {
            loop {
                let p = rng.below(i as u64) as usize;
                let free: Vec<u8> = (1..4u8).filter(|q| !used[p][*q as usize]).collect();
                if free.is_empty() { continue; }
                let q = *rng.pick(&free);
                used[p][q as usize] = true;
                parents.push(Some((p, q)));
                break;
            }
            used.push([true, false, false, false]);
        }
        Segment::tree(devs, &parents)
    } else { Segment::chain(devs) };
    let ring = seg.ring();
    let links: Vec<[bool; 4]> = ring.iter().map(|d| { let c = seg.children(*d); [true, c[1].is_some(), c[2].is_some(), c[3].is_some()] }).collect();
    let assign2 = assign.clone();
    let mut log = Vec::new();
    let r = std::panic::catch_unwind(std::panic::AssertUnwindSafe(|| net::run(async move {
        md.init::<MAXDEV, _>(now_ns, Groups::default(), |g: &Groups, sd| {
            let pos = (sd.configured_address() - 0x1000) as usize;
            Ok(match assign2.get(pos).copied().unwrap_or(0) { 0 => &g.a, 1 => &g.b, _ => &g.c })
        }).await
    }, &mut tx, &mut rx, &mut seg, &mut log, 400_000)));
    let sim: Vec<String> = ring.iter().enumerate().map(|(pos, i)| { let d = &seg.devices[*i]; format!("{{\"ports\":{:?},\"station\":{},\"al\":{},\"name\":{:?},\"strings\":{},\"ident\":[{},{},{},{}],\"alias\":{},\"dc\":{}}}",
        links[pos], d.u16_at(REG_STATION_ADDR), d.mem[REG_AL_STATUS as usize] & 0x0f, d.desc.name, d.desc.with_strings, d.desc.vendor_id, d.desc.product_id, d.desc.revision, d.desc.serial, d.desc.alias,
        match d.dc.kind { DcKind::None => 0, DcKind::Bits32 => 2, DcKind::Bits64 => 3 }) }).collect();
    let (res, groups) = match r {
        Err(_) => ("\"res\":\"PANIC\"".to_string(), String::new()),
        Ok(RunEnd::Done(Ok(g))) => {
            let one = |grp: &SubDeviceGroup<MAXDEV, MAXPDI>| format!("[{}]", grp.iter(md).map(|sd| { let id = sd.identity();
                format!("{{\"ports\":{:?},\"addr\":{},\"name\":{:?},\"ident\":[{},{},{},{}],\"alias\":{},\"dc\":{}}}", sd.verif_ports_active(), sd.configured_address(), sd.name(), id.vendor_id, id.product_id, id.revision, id.serial, sd.alias_address(), dc_code(sd.dc_support())) }).collect::<Vec<_>>().join(","));
            ("\"res\":\"Ok\"".to_string(), format!("{},{},{}", one(&g.a), one(&g.b), one(&g.c)))
        }
        Ok(RunEnd::Done(Err(e))) => (format!("\"res\":\"Err\",\"err\":\"{:?}\"", e), String::new()),
        Ok(_) => ("\"res\":\"HANG\"".to_string(), String::new()),
    };
    format!("{{\"kind\":\"c09\",\"tree\":{},\"release\":{},\"n\":{},\"max\":{},\"ng\":{},\"assign\":{:?},\"dup\":{},\"reported\":{},\"sim\":[{}],{},\"groups\":[{}],\"frames\":{}}}",
        tree, release, n, MAXDEV, ng, assign, dup, md.num_subdevices(), sim.join(","), res, groups, log.len())
}

// ---------------------------------------------------------------------------------------------
// C08: PDO configuration, the process-data mapping and an end-to-end byte probe.
const MAXDEV8: usize = 16;
const PA: usize = 24;
const PB: usize = 96;
const PC: usize = 600;

#[derive(Default)]
struct Groups8 {
    a: SubDeviceGroup<MAXDEV8, PA>,
    b: SubDeviceGroup<MAXDEV8, PB>,
    c: SubDeviceGroup<MAXDEV8, PC>,
}

struct GenDev {
    desc: DeviceDesc,
    over: Vec<(u16, u16)>,
}

fn gen_bits(rng: &mut Rng) -> u8 {
    match rng.below(8) { 0 => 1, 1 => 2, 2 => 4, 3 | 4 => 8, 5 => 16, 6 => *rng.pick(&[32u8, 64, 24, 12]), _ => rng.range(1, 64) as u8 }
}

fn gen_dev8(rng: &mut Rng, i: usize, big: bool) -> GenDev {
    use vharness::sim::eeprom::*;
    let kind = rng.below(5); // 0 coupler, 1-2 eeprom io, 3-4 coe
    if kind == 0 { return GenDev { desc: DeviceDesc::coupler(&format!("CPL{:02}", i)), over: vec![] }; }
    let coe = kind >= 3;
    let mut d = if coe { let mut d = DeviceDesc::coe_io(&format!("COE{:02}", i), 64 + 16 * rng.below(3) as u16, 0, 0); d.sync_managers.truncate(2); d.fmmu_usage.clear();
        // mostly CoE, sometimes a mailbox device without CoE (then its PDOs come from the EEPROM) or with more protocols
        if let Some(m) = d.mailbox.as_mut() { match rng.below(8) { 0 => m.protocols = MBX_FOE, 1 => m.protocols = MBX_COE | MBX_EOE | MBX_FOE, _ => {} } }
        d } else { DeviceDesc { name: format!("IO{:02}x", i), ..Default::default() } };
    // process data sync managers: up to 3 per direction, order random
    let n_out = *rng.pick(&[0usize, 1, 1, 1, 2, 3]);
    let n_in = *rng.pick(&[0usize, 1, 1, 1, 2, 3]);
    let mut kinds: Vec<u8> = std::iter::repeat(SM_OUTPUTS).take(n_out).chain(std::iter::repeat(SM_INPUTS).take(n_in)).collect();
    if rng.chance(1, 3) { for k in (1..kinds.len()).rev() { let j = rng.below(k as u64 + 1) as usize; kinds.swap(k, j); } }
    let contiguous = rng.chance(1, 2);
    let mut addr: u16 = 0x1100;
    let (mut nrx, mut ntx) = (0u16, 0u16);
    let mut over = Vec::new();
    for usage in kinds {
        let smi = d.sync_managers.len() as u8;
        let npdo = if big { rng.range(1, 3) } else { *rng.pick(&[0u64, 1, 1, 1, 2, 3]) } as usize;
        let mut bits: u32 = 0;
        for _ in 0..npdo {
            if (usage == SM_OUTPUTS && nrx >= 8) || (usage == SM_INPUTS && ntx >= 8) { break; }
            let nent = if big { rng.range(2, 6) } else { rng.range(1, 3) } as usize;
            let (index, eidx) = if usage == SM_OUTPUTS { nrx += 1; (0x1600 + nrx - 1, 0x7000 + 0x10 * (nrx - 1)) } else { ntx += 1; (0x1A00 + ntx - 1, 0x6000 + 0x10 * (ntx - 1)) };
            let entries: Vec<PdoEntryDesc> = (0..nent).map(|e| PdoEntryDesc { index: eidx, sub: e as u8 + 1, name_idx: 0, data_type: 5, bit_len: if big { *rng.pick(&[32u8, 64, 64]) } else { gen_bits(rng) }, flags: 0 }).collect();
            let mut pb: u32 = entries.iter().map(|e| e.bit_len as u32).sum();
            if rng.chance(1, 6) { let mul = rng.range(2, 4) as u16; over.push((index, mul)); pb *= mul as u32; }
            bits += pb;
            let p = PdoDesc { index, sm: smi, sync: 0, name_idx: 0, flags: 0, entries };
            if usage == SM_OUTPUTS { d.rx_pdos.push(p) } else { d.tx_pdos.push(p) }
        }
        let bytes = ((bits + 7) / 8) as u16;
        let enable = if bits == 0 && rng.chance(1, 2) { 0 } else { 1 };
        d.sync_managers.push(SmDesc { start: addr, len: bytes, control: if usage == SM_OUTPUTS { 0x64 } else { 0x20 }, enable, usage });
        addr = addr.wrapping_add(bytes).wrapping_add(if contiguous { 0 } else { *rng.pick(&[1u16, 2, 7, 16, 64]) });
    }
    // FMMU usage list
    if coe {
        d.fmmu_usage = match rng.below(8) { 0 => vec![FMMU_INPUTS, FMMU_OUTPUTS], 1 => vec![FMMU_UNUSED, FMMU_OUTPUTS, FMMU_INPUTS, FMMU_SM_STATUS], 2 => vec![FMMU_OUTPUTS, FMMU_SM_STATUS], 3 => vec![FMMU_OUTPUTS, FMMU_INPUTS, FMMU_INPUTS, FMMU_OUTPUTS], _ => vec![FMMU_OUTPUTS, FMMU_INPUTS, FMMU_SM_STATUS] };
    } else {
        d.fmmu_usage = d.sync_managers.iter().map(|s| if s.usage == SM_OUTPUTS { FMMU_OUTPUTS } else { FMMU_INPUTS }).collect();
        if rng.chance(1, 8) { d.fmmu_usage.clear(); }
    }
    if rng.chance(1, 4) {
        d.fmmu_ex = Some(d.sync_managers.iter().enumerate().filter(|(_, s)| s.usage == SM_OUTPUTS || s.usage == SM_INPUTS).map(|(k, _)| [0u8, k as u8, 0]).collect());
    }
    GenDev { desc: d, over }
}

/// Where a guard's slice sits in the image: the image is filled with position patterns first.
fn measure<const P: usize>(g: &SubDeviceGroup<MAXDEV8, P, ethercrab::DefaultLock, ethercrab::subdevice_group::Op>, md: &MainDevice<'_>) -> Vec<(u16, i64, usize, i64, usize)> {
    let lo: Vec<u8> = (0..P).map(|i| i as u8).collect();
    let hi: Vec<u8> = (0..P).map(|i| (i >> 8) as u8).collect();
    let mut out = Vec::new();
    let n = g.len();
    for k in 0..n {
        let sd = g.subdevice(md, k).unwrap();
        g.verif_pdi_set(&lo);
        let (il, ol, i0, o0) = { let io = sd.io_raw(); (io.inputs().len(), io.outputs().len(), io.inputs().first().copied(), io.outputs().first().copied()) };
        g.verif_pdi_set(&hi);
        let (i1, o1) = { let io = sd.io_raw(); (io.inputs().first().copied(), io.outputs().first().copied()) };
        let pos = |a: Option<u8>, b: Option<u8>| match (a, b) { (Some(a), Some(b)) => a as i64 | ((b as i64) << 8), _ => -1 };
        out.push((sd.configured_address(), pos(i0, i1), il, pos(o0, o1), ol));
    }
    g.verif_pdi_set(&vec![0u8; P]);
    out
}

struct GState { res: String, lens: (usize, usize), wins: Vec<(u16, i64, usize, i64, usize)> }

fn c08_case(rng: &mut Rng, release: bool) -> String {
    use vharness::sim::eeprom::{SM_INPUTS, SM_OUTPUTS};
    vharness::clock::reset();
    let (mut tx, mut rx, pl) = net::storage::<16, FRAME>();
    let timeouts = Timeouts { state_transition: Duration::from_millis(300), ..Timeouts::default() };
    let md: &'static MainDevice<'static> = Box::leak(Box::new(MainDevice::new(pl, timeouts, MainDeviceConfig { dc_static_sync_iterations: 0, ..Default::default() })));
    let n = match rng.below(8) { 0 => 1, 1 => 16, 2 => rng.range(9, 16), _ => rng.range(1, 8) } as usize;
    let ng = rng.range(1, 3) as usize;
    let assign: Vec<usize> = (0..n).map(|_| rng.below(ng as u64) as usize).collect();
    let big = rng.chance(1, 10);
    let gens: Vec<GenDev> = (0..n).map(|i| gen_dev8(rng, i, big)).collect();
    let overs: Vec<&'static [(u16, u16)]> = gens.iter().map(|g| &*Box::leak(g.over.clone().into_boxed_slice())).collect();
    let mut devs: Vec<Device> = Vec::new();
    for g in &gens {
        let mut dev = Device::new(g.desc.clone(), EscInfo::default());
        dev.sii.read8 = rng.chance(1, 2);
        if !g.over.is_empty() { dev.al.strict = false; }
        devs.push(dev);
    }
    let mut seg = Segment::chain(devs);
    let mut log = Vec::new();
    let assign2 = assign.clone();
    // what the description requires, per process-data sync manager: (device, sm, usage, start, bytes)
    let mut want: Vec<Vec<(usize, u8, u16, u32)>> = Vec::new();
    for g in &gens {
        let d = &g.desc;
        let mut w = Vec::new();
        for (k, s) in d.sync_managers.iter().enumerate() {
            if s.usage != SM_OUTPUTS && s.usage != SM_INPUTS { continue; }
            let list = if s.usage == SM_OUTPUTS { &d.rx_pdos } else { &d.tx_pdos };
            let bits: u32 = list.iter().filter(|p| p.sm as usize == k).map(|p| p.bit_len() * g.over.iter().find(|(i, _)| *i == p.index).map(|(_, m)| *m as u32).unwrap_or(1)).sum();
            w.push((k, s.usage, s.start, (bits + 7) / 8));
        }
        want.push(w);
    }
    let overs2 = overs.clone();
    let r = std::panic::catch_unwind(std::panic::AssertUnwindSafe(|| {
        let groups = match net::run(async { md.init::<MAXDEV8, _>(now_ns, Groups8::default(), |g: &Groups8, sd| {
            let pos = (sd.configured_address() - 0x1000) as usize;
            Ok(match assign2.get(pos).copied().unwrap_or(0) { 0 => &g.a, 1 => &g.b, _ => &g.c })
        }).await }, &mut tx, &mut rx, &mut seg, &mut log, 400_000) {
            RunEnd::Done(Ok(g)) => g,
            RunEnd::Done(Err(e)) => return Err(format!("init: {:?}", e)),
            _ => return Err("init: HANG".into()),
        };
        let Groups8 { mut a, mut b, mut c } = groups;
        for mut sd in a.iter_mut(md) { let p = (sd.configured_address() - 0x1000) as usize; sd.set_oversampling(overs2[p]); }
        for mut sd in b.iter_mut(md) { let p = (sd.configured_address() - 0x1000) as usize; sd.set_oversampling(overs2[p]); }
        for mut sd in c.iter_mut(md) { let p = (sd.configured_address() - 0x1000) as usize; sd.set_oversampling(overs2[p]); }
        macro_rules! up { ($g:expr) => {{
            match net::run($g.into_op(md), &mut tx, &mut rx, &mut seg, &mut log, 400_000) {
                RunEnd::Done(Ok(g)) => { let lens = g.verif_lens(); let wins = measure(&g, md); (GState { res: "Ok".into(), lens, wins }, Some(g)) }
                RunEnd::Done(Err(e)) => (GState { res: format!("{:?}", e), lens: (0, 0), wins: vec![] }, None),
                _ => (GState { res: "HANG".into(), lens: (0, 0), wins: vec![] }, None),
            }
        }}; }
        // groups are brought up in a random order
        let order = rng.below(6);
        let (mut sa, mut sb, mut sc) = (None, None, None);
        let (mut ga, mut gb, mut gc) = (None, None, None);
        let mut a = Some(a); let mut b = Some(b); let mut c = Some(c);
        for step in 0..3 {
            let which = [[0, 1, 2], [0, 2, 1], [1, 0, 2], [1, 2, 0], [2, 0, 1], [2, 1, 0]][order as usize][step];
            match which { 0 => { let (s, g) = up!(a.take().unwrap()); sa = Some(s); ga = g; } 1 => { let (s, g) = up!(b.take().unwrap()); sb = Some(s); gb = g; } _ => { let (s, g) = up!(c.take().unwrap()); sc = Some(s); gc = g; } }
        }
        // ---- end-to-end probe: one cycle per group, every device's memory watched
        let mut probes: Vec<String> = Vec::new();
        let fill = |seg: &mut Segment, rng: &mut Rng| {
            for (p, w) in want.iter().enumerate() { for (_k, usage, start, bytes) in w { if *usage == SM_INPUTS { for a in 0..*bytes as usize { let ad = *start as usize + a; if ad < 0x10000 { seg.devices[p].mem[ad] = rng.byte() | 1; } } } } }
        };
        macro_rules! probe { ($g:expr, $gi:expr, $P:expr) => {{ if let Some(g) = $g.as_ref() {
            fill(&mut seg, rng);
            let mut written: Vec<(usize, Vec<u8>)> = Vec::new();
            for k in 0..g.len() { let sd = g.subdevice(md, k).unwrap(); let p = (sd.configured_address() - 0x1000) as usize; let mut o = sd.outputs_raw_mut(); for x in o.iter_mut() { *x = rng.byte() | 1; } written.push((p, o.to_vec())); }
            let before: Vec<Vec<u8>> = seg.devices.iter().map(|d| d.mem[0x1000..].to_vec()).collect();
            let mut img_o = [vec![0u8; PA], vec![0u8; PB], vec![0u8; PC]];
            if let Some(x) = ga.as_ref() { x.verif_pdi_get(&mut img_o[0]); } if let Some(x) = gb.as_ref() { x.verif_pdi_get(&mut img_o[1]); } if let Some(x) = gc.as_ref() { x.verif_pdi_get(&mut img_o[2]); }
            let rr = net::run(g.tx_rx(md), &mut tx, &mut rx, &mut seg, &mut log, 400_000);
            let mut bad: Vec<String> = Vec::new();
            match rr { RunEnd::Done(Ok(_)) => {}, RunEnd::Done(Err(e)) => bad.push(format!("tx_rx: {:?}", e)), _ => bad.push("tx_rx: HANG".into()) }
            let mut allowed: Vec<Vec<bool>> = seg.devices.iter().map(|_| vec![false; 0xf000]).collect();
            for (p, bytes) in &written {
                let mut exp: Vec<u8> = Vec::new();
                for (_k, usage, start, len) in &want[*p] { if *usage == SM_OUTPUTS { for a in 0..*len as usize { let ad = *start as usize + a; if ad >= 0x1000 && ad < 0x10000 { exp.push(seg.devices[*p].mem[ad]); allowed[*p][ad - 0x1000] = true; } } } }
                if &exp != bytes { bad.push(format!("outputs of device {}: wrote {:?}, its output memory holds {:?}", p, bytes, exp)); }
            }
            for k in 0..g.len() { let sd = g.subdevice(md, k).unwrap(); let p = (sd.configured_address() - 0x1000) as usize; let got = sd.inputs_raw().to_vec();
                let mut exp: Vec<u8> = Vec::new();
                for (_k, usage, start, len) in &want[p] { if *usage == SM_INPUTS { for a in 0..*len as usize { let ad = *start as usize + a; if ad < 0x10000 { exp.push(seg.devices[p].mem[ad]); } } } }
                if exp != got { bad.push(format!("inputs of device {}: its input memory holds {:?}, the image shows {:?}", p, exp, got)); } }
            for (p, d) in seg.devices.iter().enumerate() { for a in 0..0xf000 { if d.mem[0x1000 + a] != before[p][a] && !allowed[p][a] { bad.push(format!("memory of device {} at {:#06x} changed from {} to {}", p, 0x1000 + a, before[p][a], d.mem[0x1000 + a])); break; } } }
            let mut img_n = [vec![0u8; PA], vec![0u8; PB], vec![0u8; PC]];
            if let Some(x) = ga.as_ref() { x.verif_pdi_get(&mut img_n[0]); } if let Some(x) = gb.as_ref() { x.verif_pdi_get(&mut img_n[1]); } if let Some(x) = gc.as_ref() { x.verif_pdi_get(&mut img_n[2]); }
            for o in 0..3 { if o != $gi && img_o[o] != img_n[o] { bad.push(format!("the image of group {} changed during a cycle of group {}", o, $gi)); } }
            let _ = $P;
            // for the model: image and process-data memory regions before and after the cycle
            let plen = g.verif_lens().0;
            let hexs = |b: &[u8]| b.iter().map(|x| format!("{:02x}", x)).collect::<String>();
            let mut regions: Vec<String> = Vec::new();
            for k in 0..g.len() { let sd = g.subdevice(md, k).unwrap(); let p = (sd.configured_address() - 0x1000) as usize;
                let end = want[p].iter().map(|(_, _, st, l)| *st as usize + *l as usize).max().unwrap_or(0x1100);
                let tot: usize = want[p].iter().map(|(_, _, _, l)| *l as usize).sum();
                let hi = (end + tot + 8).min(0x10000).max(0x1100);
                regions.push(format!("{{\"pos\":{},\"base\":{},\"before\":\"{}\",\"after\":\"{}\"}}", p, 0x1100, hexs(&before[p][0x100..hi - 0x1000]), hexs(&seg.devices[p].mem[0x1100..hi])));
            }
            probes.push(format!("{{\"group\":{},\"bad\":[{}],\"img_before\":\"{}\",\"img_after\":\"{}\",\"regions\":[{}]}}", $gi, bad.iter().take(4).map(|s| format!("{:?}", s)).collect::<Vec<_>>().join(","),
                hexs(&img_o[$gi][..plen.min($P)]), hexs(&img_n[$gi][..plen.min($P)]), regions.join(",")));
        } }}; }
        probe!(ga, 0usize, PA); probe!(gb, 1usize, PB); probe!(gc, 2usize, PC);
        Ok((vec![sa.unwrap(), sb.unwrap(), sc.unwrap()], probes))
    }));
    let devj: Vec<String> = gens.iter().enumerate().map(|(p, g)| { let d = &g.desc; let sim = &seg.devices[p];
        let sms: Vec<String> = d.sync_managers.iter().map(|s| format!("[{},{},{},{}]", s.usage, s.start, s.enable & 1, s.control)).collect();
        let pd = |l: &Vec<vharness::sim::eeprom::PdoDesc>| l.iter().map(|p| format!("[{},{},[{}]]", p.index, p.sm, p.entries.iter().map(|e| e.bit_len.to_string()).collect::<Vec<_>>().join(","))).collect::<Vec<_>>().join(",");
        let smr: Vec<String> = (0..d.sync_managers.len()).map(|k| { let r = sim.sm(k); format!("[{},{},{},{}]", r.start, r.len, r.control, r.activate & 1) }).collect();
        let fm: Vec<String> = (0..16).map(|k| { let f = sim.fmmu(k); format!("[{},{},{},{},{},{},{},{},{}]", f.logical_start, f.len, f.start_bit, f.end_bit, f.phys_start, f.phys_bit, f.read as u8, f.write as u8, f.enabled as u8) }).collect();
        let mbx = match d.mailbox.as_ref() { Some(m) => format!("[{},{},{},{},{}]", m.rx_offset, m.rx_size, m.tx_offset, m.tx_size, m.protocols), None => "null".to_string() };
        format!("{{\"coe\":{},\"mbx\":{},\"sms\":[{}],\"fmmu_usage\":{:?},\"fmmu_ex\":{},\"rx\":[{}],\"tx\":[{}],\"over\":[{}],\"want\":[{}],\"sm_regs\":[{}],\"fmmu_regs\":[{}],\"al\":{},\"strict\":{}}}",
            d.has_coe(), mbx, sms.join(","), d.fmmu_usage, d.fmmu_ex.is_some(), pd(&d.rx_pdos), pd(&d.tx_pdos), g.over.iter().map(|(a, b)| format!("[{},{}]", a, b)).collect::<Vec<_>>().join(","),
            want[p].iter().map(|(k, u, s, l)| format!("[{},{},{},{}]", k, u, s, l)).collect::<Vec<_>>().join(","), smr.join(","), fm.join(","), sim.al_state(), sim.al.strict) }).collect();
    let body = match r {
        Err(_) => "\"res\":\"PANIC\"".to_string(),
        Ok(Err(e)) => format!("\"res\":\"Err\",\"err\":{:?}", e),
        Ok(Ok((gs, probes))) => format!("\"res\":\"Ok\",\"groups\":[{}],\"probes\":[{}]", gs.iter().map(|g| format!("{{\"res\":{:?},\"pdi_len\":{},\"read_len\":{},\"wins\":[{}]}}", g.res, g.lens.0, g.lens.1,
            g.wins.iter().map(|w| format!("[{},{},{},{},{}]", w.0, w.1, w.2, w.3, w.4)).collect::<Vec<_>>().join(","))).collect::<Vec<_>>().join(","), probes.join(",")),
    };
    format!("{{\"kind\":\"c08\",\"release\":{},\"n\":{},\"ng\":{},\"assign\":{:?},\"max_pdi\":[{},{},{}],\"devs\":[{}],{},\"frames\":{}}}", release, n, ng, assign, PA, PB, PC, devj.join(","), body, log.len())
}

fn main() {
    let args: Vec<String> = std::env::args().collect();
    let mode = args[1].clone();
    let seed: u64 = args[2].parse().unwrap();
    let n: usize = args[3].parse().unwrap();
    let release = !cfg!(debug_assertions);
    std::panic::set_hook(Box::new(|_| {}));
    let mut rng = Rng::new(seed);
    for _ in 0..n {
        println!("{}", match mode.as_str() { "c08" => c08_case(&mut rng, release), _ => c09_case(&mut rng, release) });
    }
}
