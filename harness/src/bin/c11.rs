//! C11 harness: every public data-returning entry point against a device whose working counter is
//! altered on a chosen datagram, or which drops out from a chosen datagram on, for expected counts
//! 0..3.  The device is a register file with an SII interface and an expedited CoE server.
use ethercrab::error::Error;
use ethercrab::subdevice_group::{NoDc, Op};
use ethercrab::{verif, Command, MainDevice, MainDeviceConfig, SubDeviceGroup, Timeouts};
use std::collections::VecDeque;
use std::time::Duration;
use vharness::net::{self, RunEnd};
use vharness::rng::Rng;

const WR: u16 = 0x1000;
const RD: u16 = 0x1400;
const MLEN: u16 = 64;

struct Dev {
    mem: Vec<u8>,
    eeprom: Vec<u8>,
    out: VecDeque<Vec<u8>>,
    dgrams: Vec<(u8, u16, u16, u16)>,       // cmd, adp, ado, wkc answered
    alter: Option<(usize, u16)>,            // this datagram gets this counter
    drop_from: Option<usize>,               // the device is gone from this datagram on
    obj: Vec<u8>,
    al_follow: bool,                        // AL status follows AL control (entry point 14)
}

impl Dev {
    fn wire(&mut self, f: &[u8]) -> Option<Vec<u8>> {
        vharness::clock::advance(10);
        let mut r = f.to_vec();
        r[6] |= 2;
        if self.al_follow { vharness::clock::advance(100); }   // the state wait of entry point 14 ends by its timeout
        let mut pos = 16;
        loop {
            let lf = u16::from_le_bytes([f[pos + 6], f[pos + 7]]);
            let len = (lf & 0x7ff) as usize;
            let cmd = f[pos];
            let adp = u16::from_le_bytes([f[pos + 2], f[pos + 3]]);
            let ado = u16::from_le_bytes([f[pos + 4], f[pos + 5]]);
            let mut data = f[pos + 10..pos + 10 + len].to_vec();
            let k = self.dgrams.len();
            let gone = self.drop_from.map(|d| k >= d).unwrap_or(false);
            let addressed = match cmd { 4 | 5 => adp == 0x1000, 7 | 8 => true, _ => false };
            let mut wkc = 0u16;
            if !gone && addressed {
                wkc = 1;
                let a = ado as usize;
                match cmd {
                    4 | 7 => {
                        match ado {
                            0x0805 => data[0] = 0,
                            0x080d => data[0] = if self.out.is_empty() { 0 } else { 0x08 },
                            RD => { let rep = self.out.pop_front().unwrap_or_default(); let mut d = rep; d.resize(len, 0); data = d; }
                            _ => data.copy_from_slice(&self.mem[a..a + len]),
                        }
                    }
                    5 | 8 => {
                        if ado == WR {
                            // expedited CoE server for uploads and downloads
                            let c = (data[5] >> 4) & 7;
                            let mut rep = vec![10, 0, 0, 0, 0, 0x03 | (c << 4), 0, 0x30];
                            if data[8] >> 5 == 2 {
                                rep.push(0x43 | (((4 - self.obj.len()) as u8) << 2));
                                rep.extend_from_slice(&data[9..12]);
                                let mut d = self.obj.clone(); d.resize(4, 0); rep.extend_from_slice(&d);
                            } else {
                                rep.push(0x60); rep.extend_from_slice(&data[9..12]); rep.extend_from_slice(&[0, 0, 0, 0]);
                            }
                            self.out.push_back(rep);
                        } else {
                            self.mem[a..a + len].copy_from_slice(&data);
                            if ado == 0x0120 && self.al_follow { self.mem[0x0130] = data[0] & 0x0f; self.mem[0x0131] = 0; }
                            if ado == 0x0502 && len >= 6 && data[1] & 1 != 0 {
                                let w = u16::from_le_bytes([data[2], data[3]]) as usize * 2;
                                for i in 0..8 { self.mem[0x0508 + i] = *self.eeprom.get(w + i).unwrap_or(&0xff); }
                                self.mem[0x0502] = 0; self.mem[0x0503] = 0;
                            }
                        }
                    }
                    _ => {}
                }
            }
            if let Some((ak, aw)) = self.alter { if ak == k { wkc = aw; } }
            self.dgrams.push((cmd, adp, ado, wkc));
            r[pos + 10..pos + 10 + len].copy_from_slice(&data);
            r[pos + 10 + len] = wkc as u8;
            r[pos + 11 + len] = (wkc >> 8) as u8;
            if lf & 0x8000 == 0 { break; }
            pos += 12 + len;
        }
        Some(r)
    }
}

fn case(rng: &mut Rng, release: bool) -> String {
    vharness::clock::reset();
    let (mut tx, mut rx, pl) = net::storage::<4, 128>();
    let timeouts = Timeouts { state_transition: Duration::from_millis(2), mailbox_response: Duration::from_millis(1), mailbox_echo: Duration::from_millis(1), eeprom: Duration::from_millis(1), wait_loop_delay: Duration::from_millis(0), ..Timeouts::default() };
    let md: &'static MainDevice<'static> = Box::leak(Box::new(MainDevice::new(pl, timeouts, MainDeviceConfig::default())));
    md.verif_set_network(1, 0);
    let sd0 = verif::subdevice_with_mailbox(0x1000, (WR, MLEN), (RD, MLEN), false);
    let group: SubDeviceGroup<1, 8, ethercrab::DefaultLock, Op, NoDc> = SubDeviceGroup::verif_new([sd0].into_iter(), 0, 0, 0);
    let mut mem = rng.bytes(0x2000);
    mem[0x0502] = 0; mem[0x0503] = 0;       // SII: not busy, no errors, 4 byte reads
    let op = rng.below(15);
    let reg: u16 = 0x0100 + 4 * rng.below(0x100) as u16;
    let expected = rng.below(4) as u16;
    let nobj = rng.range(1, 4) as usize;
    let mut dev = Dev { mem, eeprom: rng.bytes(256), out: VecDeque::new(), dgrams: vec![], alter: None, drop_from: None, obj: rng.bytes(nobj), al_follow: op == 14 };
    // how the device misbehaves
    let fault = rng.below(5);
    let at = rng.below(8) as usize;
    match fault {
        0 => {}
        1 => dev.alter = Some((at, *rng.pick(&[0u16, 2, 3, 1, 0xffff]))),
        2 => dev.drop_from = Some(at),
        3 => dev.drop_from = Some(0),
        _ => dev.alter = Some((0, *rng.pick(&[0u16, 2, 3]))),
    }
    let val = rng.next() as u32;
    let word = rng.below(100) as u16;
    let nraw = rng.range(1, 12) as usize;
    let mut out: Vec<i64> = Vec::new();
    let mut log = Vec::new();
    let r = {
        let out = &mut out;
        let g = &group;
        let mut wire = |f: &[u8]| dev.wire(f);
        std::panic::catch_unwind(std::panic::AssertUnwindSafe(|| net::run(async move {
            let sd = g.subdevice(md, 0)?;
            match op {
                0 => out.push(Command::fprd(0x1000, reg).receive::<u32>(md).await? as i64),
                1 => out.push(Command::fprd(0x1000, reg).with_wkc(expected).receive::<u32>(md).await? as i64),
                2 => out.push(Command::fprd(0x1000, reg).ignore_wkc().receive::<u32>(md).await? as i64),
                3 => out.extend(Command::fprd(0x1000, reg).receive_slice(md, 6).await?.iter().map(|b| *b as i64)),
                4 => out.push(Command::fpwr(0x1000, reg).send_receive::<u32>(md, val).await? as i64),
                5 => out.extend(Command::fpwr(0x1000, reg).with_wkc(expected).send_receive_slice(md, val).await?.iter().map(|b| *b as i64)),
                6 => Command::fpwr(0x1000, reg).send(md, val).await?,
                7 => out.push(Command::brd(reg).with_wkc(expected).receive::<u32>(md).await? as i64),
                8 => out.push(sd.register_read::<u16>(reg).await? as i64),
                9 => out.push(sd.register_write::<u16>(reg, val as u16).await? as i64),
                10 => { let (s, c) = sd.status().await?; out.push(u8::from(s) as i64); out.push(u16::from(c) as i64); }
                11 => { let mut buf = vec![0u8; nraw]; let k = sd.eeprom_read_raw(md, word, &mut buf).await?; out.push(k as i64); out.extend(buf[..k].iter().map(|b| *b as i64)); }
                12 => match nobj { 1 => out.push(sd.sdo_read::<u8>(0x2000, 1).await? as i64), 2 => out.push(sd.sdo_read::<u16>(0x2000, 1).await? as i64), _ => out.extend(sd.sdo_read::<[u8; 3]>(0x2000, 1).await?.iter().map(|b| *b as i64)) },
                13 => sd.sdo_write(0x2000, 1, val as u16).await?,
                // the state request of a group transition (request_subdevice_state_nowait): the AL control write is checked
                _ => { let g2: SubDeviceGroup<1, 8, ethercrab::DefaultLock, Op, NoDc> = SubDeviceGroup::verif_new([verif::subdevice_with_mailbox(0x1000, (WR, MLEN), (RD, MLEN), false)].into_iter(), 0, 0, 0); g2.into_safe_op(md).await?; }
            }
            Ok::<(), Error>(())
        }, &mut tx, &mut rx, &mut wire, &mut log, 3000)))
    };
    let res = match r {
        Err(_) => "\"res\":\"PANIC\"".to_string(),
        Ok(RunEnd::Done(Ok(()))) => "\"res\":\"Ok\"".to_string(),
        Ok(RunEnd::Done(Err(e))) => format!("\"res\":\"Err\",\"err\":\"{:?}\"", e),
        Ok(_) => "\"res\":\"HANG\"".to_string(),
    };
    let m = &dev.mem;
    let r32 = u32::from_le_bytes([m[reg as usize], m[reg as usize + 1], m[reg as usize + 2], m[reg as usize + 3]]);
    format!("{{\"kind\":\"c11\",\"release\":{},\"op\":{},\"reg\":{},\"expected\":{},\"fault\":{},\"at\":{},\"alter\":{},\"val\":{},\"word\":{},\"nraw\":{},\"obj\":{:?},\"dgrams\":[{}],{},\"out\":{:?},\"mem_at_reg\":{},\"mem6\":{:?},\"eeprom\":{:?}}}",
        release, op, reg, expected, fault, at, dev.alter.map(|a| a.1 as i64).unwrap_or(-1), val, word, nraw, dev.obj,
        dev.dgrams.iter().map(|d| format!("[{},{},{},{}]", d.0, d.1, d.2, d.3)).collect::<Vec<_>>().join(","), res, out, r32,
        &m[reg as usize..reg as usize + 6], &dev.eeprom[word as usize * 2..(word as usize * 2 + nraw).min(256)])
}

fn main() {
    let args: Vec<String> = std::env::args().collect();
    let seed: u64 = args[1].parse().unwrap();
    let n: usize = args[2].parse().unwrap();
    let release = !cfg!(debug_assertions);
    std::panic::set_hook(Box::new(|_| {}));
    let mut rng = Rng::new(seed);
    for _ in 0..n { println!("{}", case(&mut rng, release)); }
}
