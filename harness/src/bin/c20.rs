//! C20 harness: 2..4 cooperative tasks share one MainDevice over a simulated segment.
//! Every await point is a scheduling point; the scheduler (one PRNG stream) decides which woken
//! task runs next, when the TX side takes a sendable frame and which in-flight response is
//! delivered next (any order, 0..500 us apart).  The same tasks are then run one after the other
//! on an identically built network; per-task result logs, the groups' images and the devices'
//! memories must agree.
use ethercrab::subdevice_group::Op;
use ethercrab::{MainDevice, MainDeviceConfig, PduRx, PduStorage, PduTx, SubDeviceGroup, Timeouts};
use std::future::Future;
use std::pin::Pin;
use std::sync::atomic::{AtomicBool, Ordering};
use std::sync::Arc;
use std::task::{Context, Poll, Wake, Waker};
use std::time::Duration;
use vharness::net::{self, RunEnd, Wire};
use vharness::rng::Rng;
use vharness::sim::device::{App, Device, EscInfo};
use vharness::sim::eeprom::DeviceDesc;
use vharness::sim::segment::Segment;

const MAXDEV: usize = 8;
const PDI: usize = 64;
const FRAME: usize = PduStorage::element_size(300);
type Grp = SubDeviceGroup<MAXDEV, PDI, ethercrab::DefaultLock, Op>;

#[derive(Default)]
struct Groups {
    a: SubDeviceGroup<MAXDEV, PDI>,
    b: SubDeviceGroup<MAXDEV, PDI>,
    c: SubDeviceGroup<MAXDEV, PDI>,
}

fn now_ns() -> u64 { 1_000_000_000 + vharness::clock::now_us() * 1000 }

struct Flag(AtomicBool);
impl Wake for Flag {
    fn wake(self: Arc<Self>) { self.0.store(true, Ordering::SeqCst); }
    fn wake_by_ref(self: &Arc<Self>) { self.0.store(true, Ordering::SeqCst); }
}

#[derive(Clone, Debug)]
enum TaskKind {
    /// process-data cycles of one group
    Cycle { group: usize, rounds: usize, salt: u8 },
    /// register reads/writes on one device (scratch RAM 0x0f80.., alias register)
    Reg { group: usize, index: usize, pos: usize, rounds: usize, salt: u8 },
    /// SDO transfers on one CoE device
    Sdo { group: usize, index: usize, pos: usize, rounds: usize, salt: u8 },
}

fn hex(b: &[u8]) -> String { b.iter().map(|x| format!("{:02x}", x)).collect() }

async fn run_task(md: &'static MainDevice<'static>, gs: &'static [Option<Grp>; 3], kind: TaskKind) -> Vec<String> {
    let mut log = Vec::new();
    match kind {
        TaskKind::Cycle { group, rounds, salt } => {
            let g = gs[group].as_ref().unwrap();
            for r in 0..rounds {
                for (k, sd) in g.iter(md).enumerate() {
                    let mut o = sd.outputs_raw_mut();
                    for (i, x) in o.iter_mut().enumerate() { *x = salt.wrapping_mul(31).wrapping_add((r * 7 + k * 3 + i) as u8) | 1; }
                }
                match g.tx_rx(md).await {
                    Ok(resp) => {
                        let ins: Vec<String> = g.iter(md).map(|sd| hex(&sd.inputs_raw())).collect();
                        log.push(format!("cycle {} wkc {} states {} inputs {}", r, resp.working_counter, resp.subdevice_states.len(), ins.join("/")));
                    }
                    Err(e) => log.push(format!("cycle {} ERR {:?}", r, e)),
                }
            }
        }
        TaskKind::Reg { group, index, rounds, salt, .. } => {
            let g = gs[group].as_ref().unwrap();
            let sd = g.subdevice(md, index).unwrap();
            for r in 0..rounds {
                let addr = 0x0f80u16 + ((r as u16 * 4) % 0x40);
                let val = u32::from_le_bytes([salt, r as u8, 0xa5, (r * 3) as u8]);
                match sd.register_write::<u32>(addr, val).await { Ok(v) => log.push(format!("wr {:#x} -> {:#x}", addr, v)), Err(e) => log.push(format!("wr {:#x} ERR {:?}", addr, e)) }
                match sd.register_read::<u32>(addr).await { Ok(v) => log.push(format!("rd {:#x} = {:#x}", addr, v)), Err(e) => log.push(format!("rd {:#x} ERR {:?}", addr, e)) }
                match sd.register_read::<u16>(0x0012u16).await { Ok(v) => log.push(format!("alias = {:#x}", v)), Err(e) => log.push(format!("alias ERR {:?}", e)) }
                match sd.register_read::<u16>(0x0010u16).await { Ok(v) => log.push(format!("station = {:#x}", v)), Err(e) => log.push(format!("station ERR {:?}", e)) }
            }
        }
        TaskKind::Sdo { group, index, rounds, salt, .. } => {
            let g = gs[group].as_ref().unwrap();
            let sd = g.subdevice(md, index).unwrap();
            for r in 0..rounds {
                match sd.sdo_read::<u32>(0x1018, 1).await { Ok(v) => log.push(format!("vendor = {:#x}", v)), Err(e) => log.push(format!("vendor ERR {:?}", e)) }
                match sd.sdo_read::<[u8; 10]>(0x2000, 0).await { Ok(v) => log.push(format!("obj10 = {}", hex(&v))), Err(e) => log.push(format!("obj10 ERR {:?}", e)) }
                match sd.sdo_read::<[u8; 150]>(0x2001, 0).await { Ok(v) => log.push(format!("obj150 = {}", hex(&v))), Err(e) => log.push(format!("obj150 ERR {:?}", e)) }
                let val = u32::from_le_bytes([salt, r as u8, 0x5a, 1]);
                match sd.sdo_write::<u32>(0x2002, 0, val).await { Ok(()) => log.push("sdo wr ok".into()), Err(e) => log.push(format!("sdo wr ERR {:?}", e)) }
                match sd.sdo_read::<u32>(0x2002, 0).await { Ok(v) => log.push(format!("obj4 = {:#x}", v)), Err(e) => log.push(format!("obj4 ERR {:?}", e)) }
            }
        }
    }
    log
}

struct Net {
    md: &'static MainDevice<'static>,
    tx: PduTx<'static>,
    rx: PduRx<'static>,
    seg: Segment,
    gs: &'static [Option<Grp>; 3],
    assign: Vec<usize>,
    kinds: Vec<u8>,
    frames: usize,
}

fn storage_n(n: usize) -> (PduTx<'static>, PduRx<'static>, ethercrab::PduLoop<'static>) {
    match n { 2 => net::storage::<2, FRAME>(), 4 => net::storage::<4, FRAME>(), 8 => net::storage::<8, FRAME>(), _ => net::storage::<16, FRAME>() }
}

/// Build the network from `seed` (deterministic) and bring every group to OP.
fn build(seed: u64, nslots: usize, pdu_us: u64) -> Result<Net, String> {
    let mut rng = Rng::new(seed);
    vharness::clock::reset();
    let (mut tx, mut rx, pl) = storage_n(nslots);
    let timeouts = Timeouts { state_transition: Duration::from_millis(300), pdu: Duration::from_micros(pdu_us), ..Timeouts::default() };
    let md: &'static MainDevice<'static> = Box::leak(Box::new(MainDevice::new(pl, timeouts, MainDeviceConfig { dc_static_sync_iterations: 0, ..Default::default() })));
    let n = rng.range(2, 8) as usize;
    let ng = rng.range(2, 3) as usize;
    let mut assign: Vec<usize> = (0..n).map(|_| rng.below(ng as u64) as usize).collect();
    assign[0] = 0; assign[1] = 1; if ng == 3 && n >= 3 { assign[2] = 2; }
    let mut devs = Vec::new();
    let mut kinds = Vec::new();
    for i in 0..n {
        let k = rng.below(3) as u8; // 0/1 EEPROM io, 2 CoE
        let (ob, ib) = (rng.range(1, 3) as usize, rng.range(1, 4) as usize);
        let desc = if k == 2 { DeviceDesc::coe_io(&format!("COE{:02}", i), 64, ob, ib) } else { DeviceDesc::simple_io(&format!("IO{:02}x", i), ob, ib) };
        let mut dev = Device::new(desc, EscInfo::default());
        dev.app = if rng.chance(1, 2) { App::Loopback { xor: rng.byte() } } else { App::Counter { value: rng.byte() } };
        dev.sii.read8 = rng.chance(1, 2);
        if k == 2 {
            let od = dev.od();
            od.set(0x2000, 0, &rng.bytes(10));
            od.set(0x2001, 0, &rng.bytes(150));
            od.set_u32(0x2002, 0, 0);
        }
        kinds.push(k);
        devs.push(dev);
    }
    let mut seg = Segment::chain(devs);
    let mut log = Vec::new();
    let assign2 = assign.clone();
    let groups = match net::run(async { md.init::<MAXDEV, _>(now_ns, Groups::default(), |g: &Groups, sd| {
        let pos = (sd.configured_address() - 0x1000) as usize;
        Ok(match assign2.get(pos).copied().unwrap_or(0) { 0 => &g.a, 1 => &g.b, _ => &g.c })
    }).await }, &mut tx, &mut rx, &mut seg, &mut log, 400_000) {
        RunEnd::Done(Ok(g)) => g,
        RunEnd::Done(Err(e)) => return Err(format!("init: {:?}", e)),
        _ => return Err("init: HANG".into()),
    };
    let Groups { a, b, c } = groups;
    let mut out: [Option<Grp>; 3] = [None, None, None];
    macro_rules! up { ($g:expr, $k:expr) => { match net::run($g.into_op(md), &mut tx, &mut rx, &mut seg, &mut log, 400_000) { RunEnd::Done(Ok(g)) => out[$k] = Some(g), RunEnd::Done(Err(e)) => return Err(format!("into_op {}: {:?}", $k, e)), _ => return Err("into_op: HANG".into()) } }; }
    up!(a, 0); up!(b, 1); up!(c, 2);
    Ok(Net { md, tx, rx, seg, gs: Box::leak(Box::new(out)), assign, kinds, frames: log.len() })
}

fn pick_tasks(net: &Net, rng: &mut Rng) -> Vec<TaskKind> {
    let nt = rng.range(2, 4) as usize;
    let ng = net.assign.iter().copied().max().unwrap() + 1;
    let mut tasks = Vec::new();
    let mut used_groups: Vec<usize> = Vec::new();
    let mut used_devs: Vec<usize> = Vec::new();
    let index_in_group = |pos: usize| net.assign[..pos].iter().filter(|g| **g == net.assign[pos]).count();
    for _ in 0..nt {
        for _try in 0..20 {
            match rng.below(3) {
                0 => { let g = rng.below(ng as u64) as usize; if !used_groups.contains(&g) { used_groups.push(g); tasks.push(TaskKind::Cycle { group: g, rounds: rng.range(2, 6) as usize, salt: rng.byte() }); break; } }
                1 => { let p = rng.below(net.assign.len() as u64) as usize; if !used_devs.contains(&p) { used_devs.push(p); tasks.push(TaskKind::Reg { group: net.assign[p], index: index_in_group(p), pos: p, rounds: rng.range(2, 5) as usize, salt: rng.byte() }); break; } }
                _ => { let p = rng.below(net.assign.len() as u64) as usize; if net.kinds[p] == 2 && !used_devs.contains(&p) { used_devs.push(p); tasks.push(TaskKind::Sdo { group: net.assign[p], index: index_in_group(p), pos: p, rounds: rng.range(1, 3) as usize, salt: rng.byte() }); break; } }
            }
        }
    }
    tasks
}

fn digest(net: &Net) -> Vec<String> {
    let mut d = Vec::new();
    for g in net.gs.iter().flatten() { let mut img = vec![0u8; PDI]; g.verif_pdi_get(&mut img); d.push(format!("img {}", hex(&img))); }
    for (p, dev) in net.seg.devices.iter().enumerate() {
        d.push(format!("dev{} ram {} pd {}", p, hex(&dev.mem[0x0f80..0x0fc0]), hex(&dev.mem[0x0f00..0x0f10])));
        d.push(format!("dev{} out {} in {}", p, hex(&dev.outputs()), hex(&dev.inputs())));
        if let Some(m) = dev.mbx.as_ref() { d.push(format!("dev{} od2002 {:?}", p, m.od.get(0x2002, 0))); }
    }
    d
}

struct ConcStats { steps: usize, switches: usize, reordered: usize, max_inflight: usize, frames: usize }

/// All tasks at once under the seeded scheduler.
/// `late`: the late-poll family.  The response deadline is short (1.5 ms) but every response
/// arrives well inside it: frames go out as soon as they are sendable, each takes 0..500 us and
/// responses are delivered in the order they arrive (the clock is the arrival time).  What the
/// scheduler may still do is keep a task whose response is already stored waiting while the
/// others run - past that task's deadline.  Alone the operation succeeds, so it must here.
fn run_concurrent(net: &mut Net, tasks: &[TaskKind], rng: &mut Rng, late: bool) -> Result<(Vec<Vec<String>>, ConcStats), String> {
    let md = net.md; let gs = net.gs;
    let mut futs: Vec<Option<Pin<Box<dyn Future<Output = Vec<String>>>>>> = tasks.iter().cloned().map(|k| Some(Box::pin(run_task(md, gs, k)) as Pin<Box<dyn Future<Output = Vec<String>>>>)).collect();
    let flags: Vec<Arc<Flag>> = tasks.iter().map(|_| Arc::new(Flag(AtomicBool::new(true)))).collect();
    let wakers: Vec<Waker> = flags.iter().map(|f| f.clone().into()).collect();
    let txflag = Arc::new(Flag(AtomicBool::new(true)));
    let txw: Waker = txflag.clone().into();
    net.tx.replace_waker(&txw);
    let mut results: Vec<Option<Vec<String>>> = tasks.iter().map(|_| None).collect();
    let mut inflight: Vec<(usize, Vec<u8>, u64)> = Vec::new(); // (send order, response, arrival time in the late family)
    let victim = rng.below(tasks.len() as u64) as usize;
    let mut sent = 0usize;
    let mut st = ConcStats { steps: 0, switches: 0, reordered: 0, max_inflight: 0, frames: 0 };
    let mut last = usize::MAX;
    loop {
        if results.iter().all(|r| r.is_some()) { break; }
        st.steps += 1;
        net.tx.replace_waker(&txw);   // a woken waker is consumed: register it again, as a TX task's poll would
        if st.steps > 2_000_000 { return Err("scheduler: step limit".into()); }
        let mut choices: Vec<(u8, usize)> = Vec::new();
        for (t, f) in flags.iter().enumerate() { if results[t].is_none() && f.0.load(Ordering::SeqCst) { choices.push((0, t)); } }
        if late {
            // the victim is scheduled rarely
            if choices.len() > 1 && !rng.chance(1, 6) { choices.retain(|c| c.1 != victim); }
            if txflag.0.load(Ordering::SeqCst) { choices.clear(); choices.push((1, 0)); }
            else if let Some(k) = (0..inflight.len()).min_by_key(|k| (inflight[*k].2, inflight[*k].0)) { choices.push((2, k)); }
        } else {
            if txflag.0.load(Ordering::SeqCst) { choices.push((1, 0)); }
            for k in 0..inflight.len() { choices.push((2, k)); }
        }
        if choices.is_empty() {
            if !vharness::clock::jump_to_next_timer() { return Err(format!("scheduler: stuck (no runnable task, nothing in flight, no timer); results so far {:?}", results.iter().map(|r| r.is_some()).collect::<Vec<_>>())); }
            continue;
        }
        let (what, k) = choices[rng.below(choices.len() as u64) as usize];
        match what {
            0 => {
                if last != k { st.switches += 1; last = k; }
                flags[k].0.store(false, Ordering::SeqCst);
                let mut cx = Context::from_waker(&wakers[k]);
                if let Poll::Ready(v) = futs[k].as_mut().unwrap().as_mut().poll(&mut cx) { results[k] = Some(v); futs[k] = None; }
            }
            1 => {
                txflag.0.store(false, Ordering::SeqCst);
                // one frame per turn; come back while frames remain
                if let Some(frame) = net.tx.next_sendable_frame() {
                    let mut bytes = Vec::new();
                    let _ = frame.send_blocking(|b| { bytes = b.to_vec(); Ok(b.len()) });
                    st.frames += 1;
                    if let Some(r) = net.seg.exchange(&bytes) { inflight.push((sent, r, vharness::clock::now_us() + rng.below(501))); }
                    sent += 1;
                    st.max_inflight = st.max_inflight.max(inflight.len());
                    txflag.0.store(true, Ordering::SeqCst);
                }
            }
            _ => {
                let (ord, r, at) = inflight.remove(k);
                if inflight.iter().any(|(o, _, _)| *o < ord) { st.reordered += 1; }
                if late { vharness::clock::advance(at.saturating_sub(vharness::clock::now_us())); } else { vharness::clock::advance(rng.below(501)); }
                let _ = net.rx.receive_frame(&r);
            }
        }
    }
    Ok((results.into_iter().map(|r| r.unwrap()).collect(), st))
}

/// The same tasks one after the other.
fn run_sequential(net: &mut Net, tasks: &[TaskKind]) -> Result<Vec<Vec<String>>, String> {
    let mut out = Vec::new();
    for k in tasks.iter().cloned() {
        let mut log = Vec::new();
        match net::run(run_task(net.md, net.gs, k), &mut net.tx, &mut net.rx, &mut net.seg, &mut log, 400_000) {
            RunEnd::Done(v) => out.push(v),
            e => return Err(format!("sequential run: {:?}", e)),
        }
    }
    Ok(out)
}

fn case(seed: u64) -> String {
    let mut rng = Rng::new(seed ^ 0x5eed);
    let nslots_choice = [2usize, 4, 4, 8, 16];
    let r = std::panic::catch_unwind(std::panic::AssertUnwindSafe(|| {
        // pick the tasks on a scratch build so both real builds see the same list
        let late = seed % 4 == 3;
        let pdu_us = if late { 1500 } else { 30_000 };
        let mut probe = build(seed, 16, 30_000)?;
        let tasks = pick_tasks(&probe, &mut rng);
        if tasks.len() < 2 { return Ok::<_, String>(None); }
        let need = tasks.len();
        let nslots = *nslots_choice.iter().filter(|n| **n >= need).nth(rng.below(3) as usize).unwrap_or(&16);
        let seq = run_sequential(&mut probe, &tasks)?;
        let seq_digest = digest(&probe);
        let mut net = build(seed, nslots, pdu_us)?;
        probe.seg.frame_time_us = 0;
        net.seg.frame_time_us = 0; // latencies are the scheduler's business in the concurrent run
        let (conc, st) = run_concurrent(&mut net, &tasks, &mut rng, late)?;
        let conc_digest = digest(&net);
        Ok(Some((tasks, nslots, seq, seq_digest, conc, conc_digest, st, net.assign.clone(), net.frames, late)))
    }));
    match r {
        Err(_) => format!("{{\"kind\":\"c20\",\"seed\":{},\"res\":\"PANIC\"}}", seed),
        Ok(Err(e)) => format!("{{\"kind\":\"c20\",\"seed\":{},\"res\":\"Err\",\"err\":{:?}}}", seed, e),
        Ok(Ok(None)) => format!("{{\"kind\":\"c20\",\"seed\":{},\"res\":\"Skip\"}}", seed),
        Ok(Ok(Some((tasks, nslots, seq, sd, conc, cd, st, assign, setup_frames, late)))) => {
            let js = |v: &Vec<Vec<String>>| v.iter().map(|l| format!("[{}]", l.iter().map(|s| format!("{:?}", s)).collect::<Vec<_>>().join(","))).collect::<Vec<_>>().join(",");
            let jd = |v: &Vec<String>| v.iter().map(|s| format!("{:?}", s)).collect::<Vec<_>>().join(",");
            format!("{{\"kind\":\"c20\",\"late\":{},\"seed\":{},\"res\":\"Ok\",\"n\":{},\"assign\":{:?},\"nslots\":{},\"tasks\":[{}],\"seq\":[{}],\"conc\":[{}],\"seq_digest\":[{}],\"conc_digest\":[{}],\"steps\":{},\"switches\":{},\"reordered\":{},\"max_inflight\":{},\"frames\":{},\"setup_frames\":{}}}",
                late, seed, assign.len(), assign, nslots, tasks.iter().map(|t| format!("{:?}", format!("{:?}", t))).collect::<Vec<_>>().join(","), js(&seq), js(&conc), jd(&sd), jd(&cd),
                st.steps, st.switches, st.reordered, st.max_inflight, st.frames, setup_frames)
        }
    }
}

fn main() {
    let args: Vec<String> = std::env::args().collect();
    let seed: u64 = args[1].parse().unwrap();
    let n: usize = args[2].parse().unwrap();
    std::panic::set_hook(Box::new(|_| {}));
    for i in 0..n { println!("{}", case(seed.wrapping_mul(1_000_003).wrapping_add(i as u64))); }
}
