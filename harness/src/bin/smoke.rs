use ethercrab::{MainDevice, MainDeviceConfig, Timeouts, Command};
use vharness::net;
fn main() {
    let (mut tx, mut rx, pl) = net::storage::<4, { ethercrab::PduStorage::element_size(64) }>();
    let md = MainDevice::new(pl, Timeouts::default(), MainDeviceConfig::default());
    let mut log = Vec::new();
    let mut wire = |f: &[u8]| { let mut r = f.to_vec(); r[6] |= 2; let n = r.len(); r[n-2] = 1; Some(r) };
    let r = net::run(async { Command::brd(0x0000).receive::<u8>(&md).await }, &mut tx, &mut rx, &mut wire, &mut log, 100);
    println!("{:?} {:?}", r, log);
    let mut wire2 = |_f: &[u8]| None;
    let r = net::run(async { Command::brd(0x0000).receive::<u8>(&md).await }, &mut tx, &mut rx, &mut wire2, &mut log, 100);
    println!("{:?} t={}", r, vharness::clock::now_us());
}
