//! C20/C01: PDU indices handed out to OS threads that build frames at the same moment.
//! T threads are released together (spin barrier), each allocates a frame and pushes K datagrams;
//! the T*K indices of one round must be pairwise distinct (fewer than 256 per round).  A duplicate
//! is a replayable fact about the run, but whether a racy allocation shows up depends on the
//! machine: this is a search for a failing execution, not a proof (the proof is
//! coq/Pdu/IdxAllocProofs.v over the program the translator reads off next_pdu_idx).
use ethercrab::{Command, MainDevice, MainDeviceConfig, PduStorage, Timeouts};
use std::sync::atomic::{AtomicUsize, Ordering};
use std::sync::Mutex;

fn main() {
    let args: Vec<String> = std::env::args().collect();
    let rounds: usize = args[1].parse().unwrap();
    let threads: usize = args.get(2).map(|s| s.parse().unwrap()).unwrap_or(4);
    let per: usize = args.get(3).map(|s| s.parse().unwrap()).unwrap_or(3);
    let storage: &'static PduStorage<16, 128> = Box::leak(Box::new(PduStorage::<16, 128>::new()));
    let (_tx, _rx, pl) = storage.try_split().unwrap();
    let pl: &'static MainDevice<'static> = Box::leak(Box::new(MainDevice::new(pl, Timeouts::default(), MainDeviceConfig::default())));
    let mut dup_rounds = 0usize;
    let mut first: Option<(usize, Vec<Vec<u8>>)> = None;
    for round in 0..rounds {
        let gate = AtomicUsize::new(0);
        let pushed = AtomicUsize::new(0);
        let got: Mutex<Vec<Vec<u8>>> = Mutex::new(vec![Vec::new(); threads]);
        std::thread::scope(|s| {
            for t in 0..threads {
                let gate = &gate;
                let pushed = &pushed;
                let got = &got;
                s.spawn(move || {
                    gate.fetch_add(1, Ordering::SeqCst);
                    while gate.load(Ordering::SeqCst) < threads { std::hint::spin_loop(); }
                    let mut f = pl.verif_alloc_frame().expect("a free slot");
                    let mut mine = Vec::new();
                    for k in 0..per {
                        let h = f.push_pdu(Command::fprd(0x1000 + t as u16, 0x0130 + k as u16).into(), &[0u8; 2], None).expect("room");
                        mine.push(h.pdu_idx);
                    }
                    got.lock().unwrap()[t] = mine;
                    // keep the frame (and its slot) until every thread has pushed
                    pushed.fetch_add(1, Ordering::SeqCst);
                    while pushed.load(Ordering::SeqCst) < threads { std::hint::spin_loop(); }
                    drop(f);
                });
            }
        });
        let got = got.into_inner().unwrap();
        let mut all: Vec<u8> = got.iter().flatten().copied().collect();
        all.sort();
        let n = all.len();
        all.dedup();
        if all.len() != n {
            dup_rounds += 1;
            if first.is_none() { first = Some((round, got)); }
        }
    }
    match first {
        Some((round, got)) => println!("{{\"rounds\":{},\"threads\":{},\"per_thread\":{},\"duplicate_rounds\":{},\"first_round\":{},\"indices\":{:?}}}", rounds, threads, per, dup_rounds, round, got),
        None => println!("{{\"rounds\":{},\"threads\":{},\"per_thread\":{},\"duplicate_rounds\":0}}", rounds, threads, per),
    }
}
