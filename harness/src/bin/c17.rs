//! C17 harness.
//! mode `assign`: arbitrary (also impossible) port reports straight into the parent assignment /
//!   propagation delay computation (hook verif::assign_parents).
//! mode `tree`: random trees of simulated devices with link / forwarding delays and free-running
//!   local clocks; the whole of configure_dc (latch, read back, assignment, register writes) runs
//!   against the simulated segment; ground truth comes from the segment.
use ethercrab::{verif, MainDevice, MainDeviceConfig, Timeouts};
use vharness::net::{self, RunEnd};
use vharness::rng::Rng;
use vharness::sim::device::{DcKind, Device, EscInfo, REG_DC_DELAY, REG_DC_OFFSET, REG_DC_PORT0, REG_DC_RECV};
use vharness::sim::eeprom::DeviceDesc;
use vharness::sim::segment::Segment;

fn assign_case(rng: &mut Rng, release: bool) -> String {
    let n = match rng.below(4) { 0 => rng.range(1, 3) as usize, 1 => rng.range(10, 24) as usize, _ => rng.range(2, 9) as usize };
    let style = rng.below(4);   // 0: anything, 1: port 0 always open and earliest, 2: chain-like, 3: anything with near-wrap times
    let mut devs: Vec<([bool; 4], [u32; 4], bool, u64)> = Vec::new();
    for i in 0..n {
        let mut active = [rng.chance(3, 4), rng.chance(1, 3), rng.chance(1, 2), rng.chance(1, 5)];
        let base: u32 = match style { 3 => u32::MAX - rng.below(5000) as u32, _ => rng.edgy(32) as u32 >> rng.below(12) };
        let mut times = [base, base.wrapping_add(rng.below(3000) as u32), base.wrapping_add(rng.below(6000) as u32), base.wrapping_add(rng.below(9000) as u32)];
        match style {
            0 => { if rng.chance(1, 10) { active = [false; 4]; } if rng.chance(1, 6) { times = [rng.edgy(32) as u32, rng.edgy(32) as u32, rng.edgy(32) as u32, rng.edgy(32) as u32]; } }
            1 | 3 => { active[0] = true; times.sort(); if style == 3 { times = [times[0], times[0].wrapping_add(rng.below(9000) as u32), times[0].wrapping_add(rng.below(9000) as u32), times[0].wrapping_add(rng.below(9000) as u32)]; } }
            _ => { active = [true, false, i + 1 < n, false]; times.sort(); }
        }
        devs.push((active, times, rng.chance(3, 4), rng.next() >> rng.below(40)));
    }
    let mut out: Vec<i64> = Vec::new();
    let r = std::panic::catch_unwind(std::panic::AssertUnwindSafe(|| verif::assign_parents(&devs, &mut |v| out.push(v))));
    let res = match r {
        Err(_) => "\"res\":\"PANIC\"".to_string(),
        Ok(Ok(())) => "\"res\":\"Ok\"".to_string(),
        Ok(Err(e)) => format!("\"res\":\"Err\",\"err\":\"{:?}\"", e),
    };
    format!("{{\"kind\":\"assign\",\"release\":{},\"style\":{},\"devs\":[{}],{},\"out\":{:?}}}", release, style,
        devs.iter().map(|(a, t, dc, rt)| format!("[{:?},{:?},{},\"{}\"]", a.iter().map(|b| *b as u8).collect::<Vec<_>>(), t, *dc as u8, rt)).collect::<Vec<_>>().join(","), res, out)
}

fn tree_case(rng: &mut Rng, release: bool) -> String {
    vharness::clock::reset();
    let (mut tx, mut rx, pl) = net::storage::<8, 256>();
    let md: &'static MainDevice<'static> = Box::leak(Box::new(MainDevice::new(pl, Timeouts::default(), MainDeviceConfig::default())));
    let n = match rng.below(4) { 0 => rng.range(1, 3) as usize, 1 => rng.range(12, 24) as usize, _ => rng.range(2, 10) as usize };
    let shape = rng.below(4);     // 0 chain, 1..: random tree
    let uniform = rng.chance(1, 2);   // every device forwards with the same delay in both directions
    let all_dc = rng.chance(1, 2);
    let wrap = rng.chance(1, 6);
    let fd = rng.range(20, 400) as u32;
    let mut parents: Vec<Option<(usize, u8)>> = vec![None];
    let mut used: Vec<[bool; 4]> = vec![[true, false, false, false]];
    for i in 1..n {
        if shape == 0 {
            parents.push(Some((i - 1, 1)));
            used[i - 1][1] = true;
        } else {
            loop {
                let p = rng.below(i as u64) as usize;
                let free: Vec<u8> = (1..4u8).filter(|q| !used[p][*q as usize]).collect();
                if free.is_empty() { continue; }
                let q = *rng.pick(&free);
                used[p][q as usize] = true;
                parents.push(Some((p, q)));
                break;
            }
        }
        used.push([true, false, false, false]);
    }
    let devs: Vec<Device> = (0..n).map(|i| {
        let kind = if all_dc || rng.chance(2, 3) { if rng.chance(1, 2) { DcKind::Bits64 } else { DcKind::Bits32 } } else { DcKind::None };
        let mut d = Device::new(DeviceDesc::simple_io(&format!("D{}", i), 1, 1), EscInfo::default().with_dc(kind));
        d.dc.clock_offset_ns = if wrap { (1i64 << 32) * rng.range(1, 5) as i64 - 1_000_000_000 - rng.below(40_000) as i64 } else { rng.range(0, 3_000_000_000) as i64 };
        if uniform { d.dc.proc_delay_ns = fd; d.dc.fwd_delay_ns = fd; } else { d.dc.proc_delay_ns = rng.range(20, 600) as u32; d.dc.fwd_delay_ns = rng.range(20, 600) as u32; }
        d
    }).collect();
    let mut seg = Segment::tree(devs, &parents);
    for i in 0..n { seg.set_link_delay(i, 2 * rng.range(5, 1000) as u32); }
    let ring = seg.ring();
    let pos_of = |d: usize| ring.iter().position(|x| *x == d).unwrap();
    for (pos, d) in ring.iter().enumerate() { seg.devices[*d].set_station_address(0x1000 + pos as u16); }
    let hook_devs: Vec<(u16, [bool; 4], bool)> = ring.iter().enumerate().map(|(pos, d)| {
        let o = seg.devices[*d].open_ports;
        (0x1000 + pos as u16, [o[0], o[3], o[1], o[2]], seg.devices[*d].has_dc())
    }).collect();
    let now = rng.next() >> 2;
    let mut out: Vec<i64> = Vec::new();
    let mut log = Vec::new();
    let r = {
        let out = &mut out;
        let hd = &hook_devs;
        std::panic::catch_unwind(std::panic::AssertUnwindSafe(|| net::run(async move { verif::configure_dc(md, hd, now, &mut |v| out.push(v)).await }, &mut tx, &mut rx, &mut seg, &mut log, 5000)))
    };
    let res = match r {
        Err(_) => "\"res\":\"PANIC\"".to_string(),
        Ok(RunEnd::Done(Ok(()))) => "\"res\":\"Ok\"".to_string(),
        Ok(RunEnd::Done(Err(e))) => format!("\"res\":\"Err\",\"err\":\"{:?}\"", e),
        Ok(_) => "\"res\":\"HANG\"".to_string(),
    };
    let reference = seg.dc_reference().map(|d| 0x1000 + pos_of(d) as i64).unwrap_or(-1);
    let rows: Vec<String> = ring.iter().map(|d| {
        let dev = &seg.devices[*d];
        let o = dev.open_ports;
        let dc = dev.has_dc();
        let t = |p: u16| if dc { dev.u32_at(REG_DC_PORT0 + 4 * p) } else { 0 };
        format!("{{\"act\":[{},{},{},{}],\"times\":[{},{},{},{}],\"dc\":{},\"recv\":\"{}\",\"off\":\"{}\",\"delay\":{},\"true_parent\":{},\"true_delay\":{},\"proc\":{},\"fwd\":{},\"bits64\":{}}}",
            o[0] as u8, o[3] as u8, o[1] as u8, o[2] as u8, t(0), t(3), t(1), t(2), dc as u8,
            if dc { dev.u64_at(REG_DC_RECV) } else { 0 }, dev.u64_at(REG_DC_OFFSET), dev.u32_at(REG_DC_DELAY),
            seg.true_parent(*d).map(|p| pos_of(p) as i64).unwrap_or(-1), seg.true_delay_from_reference(*d).unwrap_or(0),
            dev.dc.proc_delay_ns, dev.dc.fwd_delay_ns, (dev.dc.kind == DcKind::Bits64) as u8)
    }).collect();
    format!("{{\"kind\":\"tree\",\"release\":{},\"n\":{},\"chain\":{},\"uniform\":{},\"all_dc\":{},\"wrap\":{},\"now\":\"{}\",\"reference\":{},\"devs\":[{}],{},\"out\":{:?}}}",
        release, n, shape == 0, uniform, all_dc, wrap, now, reference, rows.join(","), res, out)
}

fn main() {
    let args: Vec<String> = std::env::args().collect();
    let mode = args[1].as_str();
    let seed: u64 = args[2].parse().unwrap();
    let n: usize = args[3].parse().unwrap();
    let release = !cfg!(debug_assertions);
    std::panic::set_hook(Box::new(|_| {}));
    let mut rng = Rng::new(seed);
    for _ in 0..n {
        println!("{}", if mode == "assign" { assign_case(&mut rng, release) } else { tree_case(&mut rng, release) });
    }
}
