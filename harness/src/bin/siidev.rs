//! C12/C14 device-level harness: the public EEPROM API (eeprom_read_raw, eeprom_read,
//! eeprom_write_dangerously, set_alias_address, eeprom_size, read_alias_address_from_eeprom)
//! through DeviceEeprom against a simulated device's SII interface: 4 or 8 bytes per access, busy
//! polls, command errors on writes, a device that stays busy.
use ethercrab::error::Error;
use ethercrab::{verif, DcSupport, DcSync, MainDevice, MainDeviceConfig, Timeouts};
use std::time::Duration;
use vharness::net::{self, RunEnd};
use vharness::rng::Rng;
use vharness::sim::device::{Device, EscInfo};
use vharness::sim::eeprom::DeviceDesc;
use vharness::sim::segment::Segment;

#[derive(ethercrab_wire::EtherCrabWireReadWrite)]
#[wire(bytes = 3)]
struct W3 {
    #[wire(bytes = 1)]
    a: u8,
    #[wire(bytes = 2)]
    b: u16,
}

fn hex(b: &[u8]) -> String { b.iter().map(|x| format!("{:02x}", x)).collect() }

fn case(rng: &mut Rng, release: bool) -> String {
    vharness::clock::reset();
    let (mut tx, mut rx, pl) = net::storage::<4, 128>();
    let timeouts = Timeouts { eeprom: Duration::from_millis(5), wait_loop_delay: Duration::from_millis(0), ..Timeouts::default() };
    let md: &'static MainDevice<'static> = Box::leak(Box::new(MainDevice::new(pl, timeouts, MainDeviceConfig::default())));
    let mut dev = Device::new(DeviceDesc::coupler("X"), EscInfo::default());
    let ilen = 2 * rng.range(32, 200) as usize;
    dev.eeprom = rng.bytes(ilen);
    dev.power_on();
    dev.set_station_address(0x1000);
    dev.sii.err_bits = 0;
    dev.sii.read8 = rng.chance(1, 2);
    let mut stay_busy = rng.chance(1, 25);
    dev.sii.busy_polls = if stay_busy { 1_000_000_000 } else { *rng.pick(&[0u32, 0, 1, 3]) };
    let image = dev.eeprom.clone();
    let read8 = dev.sii.read8;
    let mut seg = Segment::chain(vec![dev]);
    let mut sd = verif::subdevice(0x1000, DcSupport::None, DcSync::Disabled);
    let op = rng.below(12);
    let word: u16 = match rng.below(8) { 0 => (ilen as u16 / 2).saturating_sub(rng.below(6) as u16), _ => rng.below(ilen as u64 / 2 - 4) as u16 };
    let errors = if op >= 6 && op <= 10 { match rng.below(5) { 0 => rng.range(19, 25) as u32, 1 => rng.range(1, 5) as u32, _ => 0 } } else { 0 };
    let word = if (6..=9).contains(&op) { word.min(ilen as u16 / 2 - 4) } else { word };
    seg.devices[0].sii.write_cmd_errors = errors;
    // failing alias updates are the interesting ones for the reported alias: make them common
    if op == 10 && !stay_busy && rng.chance(1, 3) {
        stay_busy = true;
        seg.devices[0].sii.busy_polls = 1_000_000_000;
    }
    let mut log = Vec::new();
    let n = match rng.below(6) { 0 => rng.range(30, 120) as usize, 1 => 1, _ => rng.range(0, 24) as usize };
    let val = rng.next();
    let alias = rng.edgy(16) as u16;
    let mut out: Vec<i64> = Vec::new();
    let opname;
    let r: std::thread::Result<RunEnd<Result<(), Error>>> = {
        let out = &mut out;
        let sdr = &mut sd;
        macro_rules! go { ($fut:expr) => { std::panic::catch_unwind(std::panic::AssertUnwindSafe(|| net::run($fut, &mut tx, &mut rx, &mut seg, &mut log, 20_000))) } }
        match op {
            0 | 1 => { opname = format!("[\"read_raw\",{},{}]", word, n); go!(async { let mut buf = vec![0u8; n]; let k = sdr.eeprom_read_raw(md, word, &mut buf).await?; out.push(k as i64); out.extend(buf[..k].iter().map(|b| *b as i64)); Ok(()) }) }
            2 => { opname = format!("[\"read\",{},1]", word); go!(async { let v = sdr.eeprom_read::<u8>(md, word).await?; out.push(v as i64); Ok(()) }) }
            3 => { opname = format!("[\"read\",{},{}]", word, if val & 1 == 0 { 2 } else { 4 }); if val & 1 == 0 { go!(async { let v = sdr.eeprom_read::<u16>(md, word).await?; out.extend(v.to_le_bytes().iter().map(|b| *b as i64)); Ok(()) }) } else { go!(async { let v = sdr.eeprom_read::<u32>(md, word).await?; out.extend(v.to_le_bytes().iter().map(|b| *b as i64)); Ok(()) }) } }
            4 => { opname = format!("[\"read\",{},{}]", word, if val & 1 == 0 { 3 } else { 7 }); if val & 1 == 0 { go!(async { let v = sdr.eeprom_read::<[u8; 3]>(md, word).await?; out.extend(v.iter().map(|b| *b as i64)); Ok(()) }) } else { go!(async { let v = sdr.eeprom_read::<[u8; 7]>(md, word).await?; out.extend(v.iter().map(|b| *b as i64)); Ok(()) }) } }
            5 => { opname = format!("[\"read\",{},8]", word); go!(async { let v = sdr.eeprom_read::<u64>(md, word).await?; out.extend(v.to_le_bytes().iter().map(|b| *b as i64)); Ok(()) }) }
            6 => { opname = format!("[\"write\",{},{:?}]", word, (val as u8).to_le_bytes()); go!(async { sdr.eeprom_write_dangerously(md, word, val as u8).await }) }
            7 => { opname = format!("[\"write\",{},{:?}]", word, (val as u16).to_le_bytes()); go!(async { sdr.eeprom_write_dangerously(md, word, val as u16).await }) }
            8 => { opname = format!("[\"write\",{},{:?}]", word, (val as u32).to_le_bytes()); go!(async { sdr.eeprom_write_dangerously(md, word, val as u32).await }) }
            9 => { opname = format!("[\"write\",{},{:?}]", word, [val as u8, (val >> 8) as u8, (val >> 16) as u8]); go!(async { sdr.eeprom_write_dangerously(md, word, W3 { a: val as u8, b: (val >> 8) as u16 }).await }) }
            10 => { opname = format!("[\"alias\",{}]", alias); go!(async { sdr.set_alias_address(md, alias).await?; let back = sdr.eeprom_read::<u16>(md, 4).await?; out.push(back as i64); out.push(sdr.alias_address() as i64); Ok(()) }) }
            _ => { opname = "[\"size\"]".to_string(); go!(async { let s = sdr.eeprom_size(md).await?; out.push(s as i64); Ok(()) }) }
        }
    };
    let res = match r {
        Err(_) => "\"res\":\"PANIC\"".to_string(),
        Ok(RunEnd::Done(Ok(()))) => "\"res\":\"Ok\"".to_string(),
        Ok(RunEnd::Done(Err(e))) => format!("\"res\":\"Err\",\"err\":\"{:?}\"", e),
        Ok(_) => "\"res\":\"HANG\"".to_string(),
    };
    let d = &seg.devices[0];
    let alias_reported = sd.alias_address();
    format!("{{\"kind\":\"dev\",\"alias_reported\":{},\"release\":{},\"cs\":{},\"img\":\"{}\",\"fill\":255,\"patches\":[],\"op\":{},\"busy_polls\":{},\"stay_busy\":{},\"cmd_errors\":{},\"cmd_errors_left\":{},{},\"out\":{:?},\"after\":\"{}\",\"writes\":[{}],\"frames\":{}}}",
        alias_reported, release, if read8 { 8 } else { 4 }, hex(&image), opname, d.sii.busy_polls.min(9), stay_busy, errors, d.sii.write_cmd_errors, res, out, hex(&d.eeprom),
        d.sii.writes.iter().map(|(a, w)| format!("[{},{},{}]", a, w[0], w[1])).collect::<Vec<_>>().join(","), log.len())
}

fn main() {
    let args: Vec<String> = std::env::args().collect();
    let seed: u64 = args[1].parse().unwrap();
    let n: usize = args[2].parse().unwrap();
    let release = !cfg!(debug_assertions);
    std::panic::set_hook(Box::new(|_| {}));
    let mut rng = Rng::new(seed);
    for _ in 0..n { println!("{}", case(&mut rng, release)); }
}
