//! C18 harness: (a) configure_dc_sync on hook-built PRE-OP groups against a wire that records
//! every datagram and answers the reference clock read with a chosen 64-bit time, (b) the
//! per-cycle arithmetic of tx_rx_dc for arbitrary 64-bit time / period / shift.
use ethercrab::subdevice_group::{DcConfiguration, NoDc, Op};
use ethercrab::{verif, DcSupport, DcSync, MainDevice, MainDeviceConfig, PduStorage, SubDeviceGroup, Timeouts};
use std::time::Duration;
use vharness::net::{self, RunEnd};
use vharness::rng::Rng;

const MAX_SD: usize = 8;
const D: usize = 128;

fn bytes_json(b: &[u8]) -> String {
    format!("[{}]", b.iter().map(|x| x.to_string()).collect::<Vec<_>>().join(","))
}

/// nanosecond counts around the 32-bit and 64-bit boundaries, as a Duration
fn edgy_duration(rng: &mut Rng) -> Duration {
    match rng.below(12) {
        0 => Duration::from_nanos(u32::MAX as u64 + rng.below(3)),
        1 => Duration::from_nanos(u32::MAX as u64 - rng.below(3)),
        2 => Duration::from_nanos(rng.edgy(64)),
        3 => Duration::new(rng.edgy(35), (rng.next() % 1_000_000_000) as u32),   // up to ~2^65 ns
        4 => Duration::new(u64::MAX - rng.below(2), 999_999_999),
        5 | 6 => Duration::from_nanos(rng.range(1, 2_000_000)),
        7 => Duration::from_nanos(rng.range(1, 20)),
        _ => Duration::from_nanos(rng.edgy(32)),
    }
}

/// mostly within the accepted 32-bit range
fn mostly_valid(rng: &mut Rng) -> Duration {
    if rng.chance(1, 6) { edgy_duration(rng) } else {
        match rng.below(4) {
            0 => Duration::from_nanos(rng.edgy(32)),
            1 => Duration::from_nanos(rng.range(1, 5_000_000)),
            2 => Duration::from_nanos(rng.range(1, 50)),
            _ => Duration::from_nanos(u32::MAX as u64 - rng.below(3)),
        }
    }
}

fn period(rng: &mut Rng) -> Duration {
    let d = mostly_valid(rng);
    if d.as_nanos() == 0 && !rng.chance(1, 20) { Duration::from_nanos(1) } else { d }
}

fn configure(rng: &mut Rng, release: bool) -> String {
    vharness::clock::reset();
    let storage: &'static PduStorage<4, D> = Box::leak(Box::new(PduStorage::<4, D>::new()));
    let (mut tx, mut rx, pl) = storage.try_split().unwrap();
    let md: &'static MainDevice<'static> = Box::leak(Box::new(MainDevice::new(pl, Timeouts::default(), MainDeviceConfig::default())));
    let n = rng.range(1, MAX_SD as u64) as usize;
    let addrs: Vec<u16> = (0..n).map(|i| 0x1000 + i as u16).collect();
    let mut devs = Vec::new();
    let mut desc = Vec::new();
    for a in &addrs {
        let sup = *rng.pick(&[DcSupport::None, DcSupport::RefOnly, DcSupport::Bits32, DcSupport::Bits64, DcSupport::Bits64]);
        let sync = match rng.below(4) {
            0 => DcSync::Disabled,
            1 | 2 => DcSync::Sync0,
            _ => DcSync::Sync01 { sync1_period: if rng.chance(1, 5) { edgy_duration(rng) } else { mostly_valid(rng) } },
        };
        let (sk, p1) = match sync { DcSync::Disabled => (0, 0u128), DcSync::Sync0 => (1, 0), DcSync::Sync01 { sync1_period } => (2, sync1_period.as_nanos()) };
        let supk = match sup { DcSupport::None => 0, DcSupport::RefOnly => 1, DcSupport::Bits32 => 2, DcSupport::Bits64 => 3 };
        desc.push(format!("[{},{},{},\"{}\"]", a, supk, sk, p1));
        devs.push(verif::subdevice(*a, sup, sync));
    }
    let dcref: u16 = match rng.below(8) { 0 => 0, 1 => 0x2000, _ => *rng.pick(&addrs) };
    md.verif_set_network(n as u16, dcref);
    let conf = DcConfiguration { start_delay: mostly_valid(rng), sync0_period: period(rng), sync0_shift: if rng.chance(1, 3) { edgy_duration(rng) } else { mostly_valid(rng) } };
    let delay_ns = conf.start_delay.as_nanos();
    let time: u64 = match rng.below(8) {
        0 => u64::MAX - rng.below(3),
        1 => u64::MAX.wrapping_sub(delay_ns as u64).wrapping_add(rng.below(3)).wrapping_sub(1),
        2 => rng.below(5),
        3 => (conf.sync0_period.as_nanos() as u64).wrapping_mul(rng.below(1000)).wrapping_sub(delay_ns as u64).wrapping_add(rng.below(3)).wrapping_sub(1),
        4 => rng.edgy(64),
        _ => rng.next() >> rng.below(40),
    };
    let absent: Option<u16> = if rng.chance(1, 10) { Some(*rng.pick(&addrs)) } else { None };
    let absent_from = rng.below(6) as usize;
    let group: SubDeviceGroup<MAX_SD, 16, ethercrab::DefaultLock, Op, NoDc> = SubDeviceGroup::verif_new(devs.into_iter(), 0, 0, 0);
    let group = group.verif_into_pre_op();
    let mut answers: Vec<String> = Vec::new();
    let mut ops: Vec<String> = Vec::new();
    let mut seen_absent = 0usize;
    let mut wire = |f: &[u8]| -> Option<Vec<u8>> {
        let mut r = f.to_vec();
        r[6] |= 2;
        let mut pos = 16;
        loop {
            let lf = u16::from_le_bytes([f[pos + 6], f[pos + 7]]);
            let len = (lf & 0x7ff) as usize;
            let cmd = f[pos];
            let adp = u16::from_le_bytes([f[pos + 2], f[pos + 3]]);
            let ado = u16::from_le_bytes([f[pos + 4], f[pos + 5]]);
            let mut data = f[pos + 10..pos + 10 + len].to_vec();
            let mut wkc = 1u16;
            if Some(adp) == absent {
                if seen_absent >= absent_from { wkc = 0; }
                seen_absent += 1;
            }
            if cmd == 4 {
                ops.push(format!("[4,{},{},{}]", adp, ado, len));
                if ado == 0x0910 && len == 8 { data = time.to_le_bytes().to_vec(); }
            } else if cmd == 5 {
                ops.push(format!("[5,{},{},{}]", adp, ado, bytes_json(&data)));
            } else {
                ops.push(format!("[9,{},{},{}]", cmd, adp, ado));
            }
            r[pos + 10..pos + 10 + len].copy_from_slice(&data);
            r[pos + 10 + len] = wkc as u8;
            r[pos + 11 + len] = (wkc >> 8) as u8;
            answers.push(format!("[{},{}]", bytes_json(&data), wkc));
            if lf & 0x8000 == 0 { break; }
            pos += 12 + len;
        }
        Some(r)
    };
    let mut log = Vec::new();
    let (period_ns, shift_ns) = (conf.sync0_period.as_nanos(), conf.sync0_shift.as_nanos());
    let r = std::panic::catch_unwind(std::panic::AssertUnwindSafe(|| net::run(group.configure_dc_sync(md, conf), &mut tx, &mut rx, &mut wire, &mut log, 400)));
    let res = match r {
        Err(_) => "\"res\":\"PANIC\"".to_string(),
        Ok(RunEnd::Done(Ok(g))) => { let (p, s, rf) = g.verif_dc_conf(); format!("\"res\":\"Ok\",\"hasdc\":[\"{}\",\"{}\",{}]", p, s, rf) }
        Ok(RunEnd::Done(Err(e))) => format!("\"res\":\"Err\",\"err\":\"{:?}\"", e),
        Ok(_) => "\"res\":\"HANG\"".to_string(),
    };
    format!("{{\"kind\":\"configure\",\"release\":{},\"devs\":[{}],\"dcref\":{},\"delay\":\"{}\",\"period\":\"{}\",\"shift\":\"{}\",\"time\":\"{}\",\"answers\":[{}],\"ops\":[{}],{}}}",
        release, desc.join(","), dcref, delay_ns, period_ns, shift_ns, time, answers.join(","), ops.join(","), res)
}

fn cycle(rng: &mut Rng, release: bool) -> String {
    vharness::clock::reset();
    let storage: &'static PduStorage<4, D> = Box::leak(Box::new(PduStorage::<4, D>::new()));
    let (mut tx, mut rx, pl) = storage.try_split().unwrap();
    let md: &'static MainDevice<'static> = Box::leak(Box::new(MainDevice::new(pl, Timeouts::default(), MainDeviceConfig::default())));
    let n = rng.below(3) as usize;
    let addrs: Vec<u16> = (0..n).map(|i| 0x1000 + i as u16).collect();
    md.verif_set_network(n as u16, 0x1000);
    let group: SubDeviceGroup<MAX_SD, 16, ethercrab::DefaultLock, Op, NoDc> = SubDeviceGroup::verif_new(
        addrs.iter().map(|a| verif::subdevice(*a, DcSupport::Bits64, DcSync::Sync0)), 0, 0, 0);
    let period: u64 = match rng.below(10) { 0 => rng.edgy(64), 1 => if rng.chance(1, 10) { 0 } else { 1 }, 2 => u32::MAX as u64 + rng.below(3), _ => rng.edgy(32).max(1) };
    let shift: u64 = match rng.below(10) { 0 => rng.edgy(64), 1 => u64::MAX - (u32::MAX as u64) - 2 + rng.below(5), 2 => u32::MAX as u64 + rng.below(3), _ => rng.edgy(32) };
    let time: u64 = match rng.below(6) { 0 => u64::MAX - rng.below(3), 1 => period.wrapping_mul(rng.below(1 << 20)).wrapping_add(rng.below(3)).wrapping_sub(1), 2 => rng.below(4), _ => rng.edgy(64) };
    let g = group.verif_with_dc(0x1000, period, shift);
    let mut wire = |f: &[u8]| -> Option<Vec<u8>> {
        let mut r = f.to_vec();
        r[6] |= 2;
        let mut pos = 16;
        loop {
            let lf = u16::from_le_bytes([f[pos + 6], f[pos + 7]]);
            let len = (lf & 0x7ff) as usize;
            let cmd = f[pos];
            if cmd == 14 && len == 8 { r[pos + 10..pos + 18].copy_from_slice(&time.to_le_bytes()); }
            if cmd == 4 { r[pos + 10] = 8; }
            r[pos + 10 + len] = 1;
            if lf & 0x8000 == 0 { break; }
            pos += 12 + len;
        }
        Some(r)
    };
    let mut log = Vec::new();
    let r = std::panic::catch_unwind(std::panic::AssertUnwindSafe(|| net::run(g.tx_rx_dc(md), &mut tx, &mut rx, &mut wire, &mut log, 400)));
    let res = match r {
        Err(_) => "\"res\":\"PANIC\"".to_string(),
        Ok(RunEnd::Done(Ok(resp))) => format!("\"res\":\"Ok\",\"dctime\":\"{}\",\"off\":\"{}\",\"wait\":\"{}\"", resp.extra.dc_system_time, resp.extra.cycle_start_offset.as_nanos(), resp.extra.next_cycle_wait.as_nanos()),
        Ok(RunEnd::Done(Err(e))) => format!("\"res\":\"Err\",\"err\":\"{:?}\"", e),
        Ok(_) => "\"res\":\"HANG\"".to_string(),
    };
    format!("{{\"kind\":\"cycle\",\"release\":{},\"period\":\"{}\",\"shift\":\"{}\",\"time\":\"{}\",{}}}", release, period, shift, time, res)
}

fn main() {
    let args: Vec<String> = std::env::args().collect();
    let seed: u64 = args[1].parse().unwrap();
    let n: usize = args[2].parse().unwrap();
    let release = !cfg!(debug_assertions);
    std::panic::set_hook(Box::new(|_| {}));
    let mut rng = Rng::new(seed);
    for k in 0..n {
        let line = if k % 3 == 2 { cycle(&mut rng, release) } else { configure(&mut rng, release) };
        println!("{}", line);
    }
}
