//! PDU-loop history harness (C01, C02, C03, C05, C06): drives the real frame slots through random
//! operation histories using the cfg(ethercrab_verif) wrappers and prints, per history, the ops
//! and the observation vector in the same encoding as coq/Pdu/Slots.v `obs_history`.
//!
//! Operations that contain a yield point (receive_frame, ReceivedFrame::drop, ReceiveFrameFut::poll)
//! can be run "windowed": other operations are then executed from inside the yield-point callback,
//! i.e. exactly between the two halves of the real operation, and the log shows the halves as
//! separate ops (rxbegin/rxcopy/rxend, droprel/dropclear, pollbegin/pollend).
use ethercrab::verif::{self, VCreated, VFuture, VHandle, VPdu, VReceived};
use ethercrab::{Command, MainDevice, MainDeviceConfig, PduRx, PduStorage, PduTx, Reads, SendableFrame, Timeouts, Writes};
use std::cell::Cell;
use std::future::Future;
use std::pin::Pin;
use std::sync::Arc;
use std::task::{Context, Poll, Wake};
use std::time::Duration;
use vharness::clock;
use vharness::rng::Rng;

struct NoopWake;
impl Wake for NoopWake {
    fn wake(self: Arc<Self>) {}
}

thread_local! {
    static WAKE_MD: std::cell::Cell<Option<&'static MainDevice<'static>>> = const { std::cell::Cell::new(None) };
    /// (slot, status of the slot at the moment its waiting task was woken)
    static WAKE_LOG: std::cell::RefCell<Vec<(usize, u8)>> = const { std::cell::RefCell::new(Vec::new()) };
    /// the task of slot i has been woken since its last poll began (it is scheduled to be polled
    /// again; the registered waker has been consumed)
    static SCHEDULED: std::cell::RefCell<[bool; 16]> = const { std::cell::RefCell::new([false; 16]) };
}

/// The waker of the task waiting on one slot: notes what the woken task would find if it ran at once.
struct SlotWake(usize);
impl Wake for SlotWake {
    fn wake(self: Arc<Self>) {
        let st = WAKE_MD.with(|m| m.get().map(|md| md.verif_slot(self.0).0).unwrap_or(255));
        WAKE_LOG.with(|l| l.borrow_mut().push((self.0, st)));
        SCHEDULED.with(|s| s.borrow_mut()[self.0 & 15] = true);
    }
}

fn command(kind: u8, a: u32, r: u16) -> Command {
    match kind {
        0 => Command::Nop,
        1 => Command::aprd(a as u16, r).into(),
        2 => Command::fprd(a as u16, r).into(),
        3 => Command::brd(r).into(),
        4 => Command::Read(Reads::Lrd { address: a }),
        5 => Command::bwr(r).into(),
        6 => Command::apwr(a as u16, r).into(),
        7 => Command::fpwr(a as u16, r).into(),
        8 => Command::frmw(a as u16, r).into(),
        9 => Command::lwr(a).into(),
        _ => Command::Write(Writes::Lrw { address: a }),
    }
}

fn bytes_json(b: &[u8]) -> String {
    format!("[{}]", b.iter().map(|x| x.to_string()).collect::<Vec<_>>().join(","))
}

fn err_code(e: &ethercrab::error::Error) -> Vec<i64> {
    use ethercrab::error::{Error, PduError};
    match e {
        Error::Pdu(PduError::Ethernet) => vec![10],
        Error::Wire(ethercrab_wire::WireError::ReadBufferTooShort) => vec![11],
        Error::Wire(ethercrab_wire::WireError::InvalidValue) => vec![12],
        Error::ReceiveFrame => vec![13],
        Error::Internal => vec![14],
        Error::Pdu(PduError::Decode) => vec![15],
        Error::Pdu(PduError::InvalidIndex(k)) => vec![16, *k as i64],
        Error::Pdu(PduError::InvalidFrameState) => vec![17],
        Error::Pdu(PduError::SwapState) => vec![18],
        Error::Timeout(_) => vec![19],
        Error::Pdu(PduError::TooLong) => vec![20],
        _ => vec![99],
    }
}

struct FutH {
    fut: VFuture<'static>,
    deadline: u64,
    timeout_us: u64,
    retries: usize,
    /// embassy's Timer only fires from its second poll on
    polled: bool,
}

struct World {
    md: &'static MainDevice<'static>,
    tx: PduTx<'static>,
    rx: Option<PduRx<'static>>,
    n: usize,
    cap: usize,
    created: Vec<Option<VCreated<'static>>>,
    futs: Vec<Option<FutH>>,
    received: Vec<Option<VReceived<'static>>>,
    sending: Vec<Option<SendableFrame<'static>>>,
    sent_frames: Vec<Vec<u8>>,
    in_flight: Vec<Vec<u8>>,
    ops: Vec<String>,
    obs: Vec<i64>,
    full: bool,
    mode: String,
    /// spec-oracle notes (violations seen directly on the implementation)
    oracle: Vec<String>,
    /// the future of this slot returned Pending at its last poll (its waker is registered)
    waiting: Vec<bool>,
    /// windows entered: abandonment / expiry while TX or RX is inside the buffer, etc.
    windows: Vec<String>,
    /// inner operations to run at each site of the operation that is currently windowed
    plan: [usize; 5],
    win_rx: Option<Vec<u8>>,
    rx_phase: u8,
    win_drop: bool,
    win_poll: bool,
    poll_was: Option<u8>,
    cur_poll_expired: bool,
    in_window: bool,
    /// handles of the datagrams pushed into the frame being built / awaiting a response
    handles: Vec<Vec<VHandle>>,
    /// payload (datagram area) of the response each slot accepted last
    accepted: Vec<Option<Vec<u8>>>,
    views: Vec<Option<ViewH>>,
    last_status: Vec<u8>,
    rx_inside: Option<usize>,
    /// the reader is in the middle of dropping this slot's ReceivedFrame
    dropping: Option<usize>,
    /// datagrams accepted into the frame currently being built in each slot (independent encoder)
    building: Vec<Vec<Dg>>,
    /// frame bytes each pending request is expected to transmit
    expect: Vec<Option<Vec<u8>>>,
    /// expectation captured when TX claimed the slot
    expect_tx: Vec<Option<Vec<u8>>>,
}

struct ViewH {
    pdu: VPdu<'static>,
    slot: usize,
    start: usize,
    len: usize,
    first_seen: Vec<u8>,
}

/// independent parse of a response's datagram area: (data, wkc) per datagram
fn parse_dgs(p: &[u8]) -> Vec<(Vec<u8>, u16)> {
    let mut out = Vec::new();
    let mut pos = 0usize;
    loop {
        if p.len() < pos + 12 { break; }
        let lf = u16::from_le_bytes([p[pos + 6], p[pos + 7]]);
        let len = (lf & 0x7ff) as usize;
        if p.len() < pos + 12 + len { break; }
        let data = p[pos + 10..pos + 10 + len].to_vec();
        let wkc = u16::from_le_bytes([p[pos + 10 + len], p[pos + 11 + len]]);
        out.push((data, wkc));
        if lf & 0x8000 == 0 { break; }
        pos += 12 + len;
    }
    out
}

/// The datagrams of a response, but only if it is structurally complete: every datagram whole, the
/// last one not announcing another, nothing left over.  C01 speaks about such responses; what the
/// receive path does with damaged ones is C05's business (no crash, state consistent).
fn parse_dgs_complete(p: &[u8]) -> Option<Vec<(Vec<u8>, u16)>> {
    let mut out = Vec::new();
    let mut pos = 0usize;
    loop {
        if p.len() < pos + 12 { return None; }
        let lf = u16::from_le_bytes([p[pos + 6], p[pos + 7]]);
        let len = (lf & 0x7ff) as usize;
        if p.len() < pos + 12 + len { return None; }
        let data = p[pos + 10..pos + 10 + len].to_vec();
        let wkc = u16::from_le_bytes([p[pos + 10 + len], p[pos + 11 + len]]);
        out.push((data, wkc));
        pos += 12 + len;
        if lf & 0x8000 == 0 { break; }
    }
    if pos == p.len() { Some(out) } else { None }
}

#[derive(Clone)]
struct Dg { code: u8, idx: u8, raw: [u8; 4], len: usize, data: Vec<u8> }

fn code_of(kind: u8) -> u8 { [0u8, 1, 4, 7, 10, 8, 2, 5, 14, 11, 12][kind as usize] }

fn raw4(kind: u8, a: u32, r: u16) -> [u8; 4] {
    let (adp, ado): (u16, u16) = match kind {
        1 | 6 => ((0u16).wrapping_sub(a as u16), r),
        3 | 5 => (0, r),
        4 | 9 | 10 => (a as u16, (a >> 16) as u16),
        0 => (0, 0),
        _ => (a as u16, r),
    };
    [adp as u8, (adp >> 8) as u8, ado as u8, (ado >> 8) as u8]
}

fn encode_frame(dgs: &[Dg]) -> Vec<u8> {
    let mut body = Vec::new();
    for (k, d) in dgs.iter().enumerate() {
        let lf = (d.len as u16) | if k + 1 < dgs.len() { 0x8000 } else { 0 };
        body.extend([d.code, d.idx]);
        body.extend(d.raw);
        body.extend([lf as u8, (lf >> 8) as u8, 0, 0]);
        body.extend(&d.data);
        body.extend(std::iter::repeat(0u8).take(d.len - d.data.len() + 2));
    }
    let hdr = (body.len() as u16) | 0x1000;
    let mut f = vec![0xffu8; 6];
    f.extend([0x10u8; 6]);
    f.extend([0x88, 0xa4, hdr as u8, (hdr >> 8) as u8]);
    f.extend(body);
    f
}

thread_local! {
    static CTL: Cell<(*mut World, *mut Rng)> = const { Cell::new((std::ptr::null_mut(), std::ptr::null_mut())) };
}

fn hook(site: u8, slot: u8) {
    let (wp, rp) = CTL.with(|c| c.get());
    if wp.is_null() {
        return;
    }
    // SAFETY: single-threaded; the outer operation has moved the object it works on out of the
    // World before calling into ethercrab, so the inner operations never touch it.
    let w: &mut World = unsafe { &mut *wp };
    let rng: &mut Rng = unsafe { &mut *rp };
    w.at_site(site, slot, rng);
}

impl World {
    fn edge_ok(a: u8, b: u8) -> bool {
        a == b
            || matches!((a, b), (0, 1) | (1, 2) | (1, 0) | (2, 3) | (3, 4) | (3, 2) | (4, 5) | (5, 6) | (4, 6) | (6, 7) | (7, 0))
            || (matches!(a, 2 | 4 | 6) && matches!(b, 0 | 2))
    }

    fn snap(&mut self) {
        if self.mode == "c02" {
            for i in 0..self.n {
                let st = self.md.verif_slot(i).0;
                if !Self::edge_ok(self.last_status[i], st) {
                    self.oracle.push(format!("lifecycle-order: slot {} went from status {} to {}", i, self.last_status[i], st));
                }
                self.last_status[i] = st;
                let reader = self.received[i].is_some() || self.dropping == Some(i);
                let parties = self.created[i].is_some() as u8 + reader as u8
                    + self.sending[i].is_some() as u8 + (self.rx_inside == Some(i)) as u8;
                if parties > 1 {
                    self.oracle.push(format!("two-parties: slot {} has {} parties inside its buffer (builder={}, reader={}, tx={}, rx={})", i, parties,
                        self.created[i].is_some(), reader, self.sending[i].is_some(), self.rx_inside == Some(i)));
                }
                // the status must name the party
                let expect = if self.created[i].is_some() { Some(1) } else if reader { Some(7) }
                    else if self.sending[i].is_some() { Some(3) } else if self.rx_inside == Some(i) { Some(5) } else { None };
                if let Some(e) = expect {
                    if st != e { self.oracle.push(format!("status-party-mismatch: slot {} status {} but the party inside implies {}", i, st, e)); }
                } else if matches!(st, 1 | 3 | 5 | 7) {
                    self.oracle.push(format!("status-without-party: slot {} status {} with nobody inside", i, st));
                }
            }
        }
        self.obs.push(-1);
        for i in 0..self.n {
            let (st, key, used) = self.md.verif_slot(i);
            self.obs.extend([st as i64, key as i64, used as i64]);
            if self.full {
                let mut b = vec![0u8; self.cap];
                self.md.verif_slot_bytes(i, &mut b);
                self.obs.extend(b[16..].iter().map(|x| *x as i64));
            }
        }
        self.obs.push(-2);
    }

    fn full_snapshot(&self) -> Vec<(u8, u16, usize, Vec<u8>)> {
        (0..self.n)
            .map(|i| {
                let (st, key, used) = self.md.verif_slot(i);
                let mut b = vec![0u8; self.cap];
                self.md.verif_slot_bytes(i, &mut b);
                (st, key, used, b)
            })
            .collect()
    }

    fn at_site(&mut self, site: u8, slot: u8, rng: &mut Rng) {
        match site {
            1 if self.win_rx.is_some() => {
                self.rx_inside = Some(slot as usize);
                self.obs.extend([5, slot as i64]);
                self.snap();
                self.rx_phase = 1;
                let k = self.plan[1];
                // C06: abandon the request while the receive side is inside its buffer (directed: the
                // random inner steps rarely pick exactly this slot's future)
                if self.mode == "c06" && self.futs[slot as usize].is_some() && rng.chance(1, 3) {
                    let saved = self.in_window;
                    self.in_window = true;
                    self.drop_fut(slot as usize);
                    self.in_window = saved;
                }
                self.run_inner(k, rng);
                let bytes = self.win_rx.clone().unwrap();
                let plen = (u16::from_le_bytes([bytes[14], bytes[15]]) & 0x7ff) as usize;
                self.ops.push(format!("{{\"o\":\"rxcopy\",\"k\":{},\"i\":{}}}", slot, bytes_json(&bytes[16..16 + plen])));
            }
            2 if self.win_rx.is_some() => {
                self.snap();
                self.rx_phase = 2;
                let k = self.plan[2];
                if self.mode == "c06" && self.futs[slot as usize].is_some() && rng.chance(1, 4) {
                    let saved = self.in_window;
                    self.in_window = true;
                    self.drop_fut(slot as usize);
                    self.in_window = saved;
                }
                self.run_inner(k, rng);
                self.ops.push(format!("{{\"o\":\"rxend\",\"k\":{}}}", slot));
            }
            3 if self.win_drop => {
                // the key has been cleared, the slot not yet released
                self.snap();
                let k = self.plan[3];
                self.run_inner(k, rng);
                self.ops.push(format!("{{\"o\":\"droprel\",\"i\":{}}}", slot));
            }
            4 if self.win_poll => {
                let was = self.md.verif_slot(slot as usize).0;
                self.obs.extend([0, was as i64]);
                self.snap();
                self.poll_was = Some(was);
                let k = self.plan[4];
                let exp = self.cur_poll_expired;
                self.run_inner(k, rng);
                let st = self.md.verif_slot(slot as usize).0;
                if exp && (st == 3 || st == 5) {
                    self.windows.push(format!("expiry-while-{}:in-poll-window", if st == 3 { "tx" } else { "rx" }));
                }
                if exp && st == 6 {
                    // the response arrived between the poll's CAS and its timeout handling
                    self.windows.push("expiry-after-rxdone:in-poll-window".to_string());
                }
            }
            _ => {}
        }
    }

    fn run_inner(&mut self, k: usize, rng: &mut Rng) {
        if k == 0 {
            return;
        }
        let saved = (self.plan, self.win_rx.take(), self.rx_phase, self.win_drop, self.win_poll, self.poll_was.take(), self.in_window);
        self.plan = [0; 5];
        self.win_drop = false;
        self.win_poll = false;
        self.in_window = true;
        for _ in 0..k {
            step(self, rng);
        }
        self.plan = saved.0;
        self.win_rx = saved.1;
        self.rx_phase = saved.2;
        self.win_drop = saved.3;
        self.win_poll = saved.4;
        self.poll_was = saved.5;
        self.in_window = saved.6;
    }

    fn alloc(&mut self) -> Option<usize> {
        self.ops.push("{\"o\":\"alloc\"}".into());
        let r = match self.md.verif_alloc_frame() {
            Ok(f) => {
                let i = f.slot() as usize;
                self.obs.extend([1, i as i64]);
                if self.created[i].is_some() || self.futs[i].is_some() || self.received[i].is_some() {
                    self.oracle.push(format!("alloc-live-slot: alloc handed out slot {} which still has a live handle", i));
                }
                self.created[i] = Some(f);
                self.building[i].clear();
                self.handles[i].clear();
                Some(i)
            }
            Err(e) => {
                self.obs.push(0);
                self.obs.extend(err_code(&e));
                None
            }
        };
        self.snap();
        r
    }

    fn push(&mut self, i: usize, kind: u8, a: u32, r: u16, data: &[u8], ovr: Option<u16>) {
        self.ops.push(format!("{{\"o\":\"push\",\"i\":{},\"kind\":{},\"a\":{},\"r\":{},\"data\":{},\"ovr\":{}}}", i, kind, a, r, bytes_json(data), ovr.map(|o| o.to_string()).unwrap_or("null".into())));
        let f = self.created[i].as_mut().unwrap();
        match f.push_pdu(command(kind, a, r), data, ovr) {
            Ok(h) => {
                self.obs.extend([1, h.pdu_idx as i64, h.index_in_frame as i64, h.alloc_size as i64]);
                let len = ovr.map(|o| (o as usize).max(data.len())).unwrap_or(data.len());
                self.building[i].push(Dg { code: code_of(kind), idx: h.pdu_idx, raw: raw4(kind, a, r), len, data: data.to_vec() });
                self.handles[i].push(h);
            }
            Err(_) => self.obs.push(2),
        }
        self.snap();
    }

    fn push_rest(&mut self, i: usize, kind: u8, a: u32, r: u16, data: &[u8]) {
        self.ops.push(format!("{{\"o\":\"rest\",\"i\":{},\"kind\":{},\"a\":{},\"r\":{},\"data\":{}}}", i, kind, a, r, bytes_json(data)));
        let f = self.created[i].as_mut().unwrap();
        match f.push_pdu_slice_rest(command(kind, a, r), data) {
            Ok(None) => self.obs.push(3),
            Ok(Some((n, h))) => {
                self.obs.extend([4, n as i64, h.pdu_idx as i64, h.index_in_frame as i64, h.alloc_size as i64]);
                self.building[i].push(Dg { code: code_of(kind), idx: h.pdu_idx, raw: raw4(kind, a, r), len: n, data: data[..n].to_vec() });
                self.handles[i].push(h);
            }
            Err(_) => self.obs.push(2),
        }
        self.snap();
    }

    fn mark(&mut self, i: usize, timeout_us: u64, retries: usize) {
        self.ops.push(format!("{{\"o\":\"mark\",\"i\":{}}}", i));
        let f = self.created[i].take().unwrap();
        let fut = f.mark_sendable(self.md, Duration::from_micros(timeout_us), retries);
        self.futs[i] = Some(FutH { fut, deadline: clock::now_us() + timeout_us, timeout_us, retries, polled: false });
        self.waiting[i] = false;
        self.expect[i] = Some(encode_frame(&self.building[i]));
        self.snap();
    }

    fn drop_created(&mut self, i: usize) {
        self.ops.push(format!("{{\"o\":\"dropc\",\"i\":{}}}", i));
        self.created[i] = None;
        self.snap();
    }

    fn tx_claim(&mut self) -> Option<usize> {
        self.ops.push("{\"o\":\"txclaim\"}".into());
        let r = match self.tx.next_sendable_frame() {
            Some(s) => {
                let i = verif::sendable_slot(&s) as usize;
                self.obs.extend([1, i as i64, s.len() as i64]);
                self.sending[i] = Some(s);
                self.expect_tx[i] = self.expect[i].clone();
                Some(i)
            }
            None => {
                self.obs.push(0);
                None
            }
        };
        self.snap();
        r
    }

    fn tx_done(&mut self, i: usize, outcome: u8) -> Vec<u8> {
        self.ops.push(format!("{{\"o\":\"txdone\",\"i\":{},\"oc\":{}}}", i, outcome));
        let s = self.sending[i].take().unwrap();
        let mut seen = Vec::new();
        let md = self.md;
        let mut status_inside = 0u8;
        let _ = s.send_blocking(|b| {
            seen = b.to_vec();
            status_inside = md.verif_slot(i).0;
            match outcome {
                0 => Ok(b.len()),
                1 => Ok(b.len().saturating_sub(1)),
                _ => Err(ethercrab::error::Error::SendFrame),
            }
        });
        self.obs.extend(seen.iter().map(|x| *x as i64));
        if matches!(status_inside, 4 | 5 | 6) {
            // while the network is being handed the bytes the slot belongs to the transmit side; a slot
            // already marked Sent (or in receive) can take a response now (the deadline-expiry
            // releases seen as status 0/1/2 are C06's known tx-window finding, reported there)
            self.oracle.push(format!("status-party-mismatch: slot {} has status {} while the transmit side is handing its bytes to the network (a response could be written over them)", i, status_inside));
        }
        if let Some(e) = self.expect_tx[i].take() {
            if e != seen {
                self.oracle.push(format!("tx-corrupt: slot {} transmitted bytes that are not the frame its request built ({} vs {} bytes)", i, seen.len(), e.len()));
            }
        }
        if outcome == 0 {
            self.sent_frames.push(seen.clone());
            self.in_flight.push(seen.clone());
        }
        self.snap();
        seen
    }

    /// receive_frame; `windowed` = split at the yield points with `plan[1]`/`plan[2]` inner ops
    fn rx(&mut self, bytes: &[u8], windowed: bool) -> i64 {
        let before = self.full_snapshot();
        let mut rx = self.rx.take().expect("rx available");
        if windowed {
            self.ops.push(format!("{{\"o\":\"rxbegin\",\"bytes\":{}}}", bytes_json(bytes)));
            self.win_rx = Some(bytes.to_vec());
            self.rx_phase = 0;
        } else {
            self.ops.push(format!("{{\"o\":\"rx\",\"bytes\":{}}}", bytes_json(bytes)));
            self.win_rx = None;
        }
        // only wake-ups issued by this receive are examined (timer wake-ups are not its business)
        WAKE_LOG.with(|l| l.borrow_mut().clear());
        let res = std::panic::catch_unwind(std::panic::AssertUnwindSafe(|| rx.receive_frame(bytes)));
        self.rx = Some(rx);
        self.win_rx = None;
        self.rx_inside = None;
        let code = match res {
            Err(_) => {
                self.obs.push(-99);
                self.oracle.push("rx-panic: receive_frame panicked".into());
                -99
            }
            Ok(Ok(ethercrab::ReceiveAction::Ignored)) => {
                self.obs.push(0);
                0
            }
            Ok(Ok(ethercrab::ReceiveAction::Processed)) => {
                self.obs.push(1);
                1
            }
            Ok(Err(e)) => {
                self.obs.push(2);
                self.obs.extend(err_code(&e));
                2
            }
        };
        let after = self.full_snapshot();
        // wake-ups during this receive: the woken task must find its response (status RxDone)
        let wakes: Vec<(usize, u8)> = WAKE_LOG.with(|l| l.borrow_mut().drain(..).collect());
        for (slot, st) in &wakes {
            if *st != 6 {
                self.oracle.push(format!("wake-before-done: the task waiting on slot {} was woken while the slot's status was {} - it finds no response and nobody wakes it again", slot, st));
            }
        }
        if code == 1 && bytes.len() >= 16 {
            let plen = (u16::from_le_bytes([bytes[14], bytes[15]]) & 0x7ff) as usize;
            for k in 0..self.n {
                if after[k].0 == 6 && before[k].0 != 6 && self.waiting[k] && !windowed && !self.in_window && !wakes.iter().any(|(s, _)| *s == k) && !SCHEDULED.with(|s| s.borrow()[k & 15]) {
                    self.oracle.push(format!("no-wake: a response was accepted into slot {} but the task waiting on it was not woken", k));
                }
                if after[k].0 == 6 && before[k].0 != 6 {
                    self.accepted[k] = Some(bytes[16..16 + plen].to_vec());
                    // routing: the frame's first index must be this request's first index
                    if let Some(h) = self.handles[k].first() {
                        if h.pdu_idx != bytes[17] {
                            self.oracle.push(format!("routing-wrong-request: response with first index {} completed the request in slot {} whose first index is {}", bytes[17], k, h.pdu_idx));
                        }
                    }
                }
            }
        }
        if !windowed && !self.in_window {
            // C05 oracle, stated on the implementation alone
            let changed: Vec<usize> = (0..self.n).filter(|i| before[*i] != after[*i]).collect();
            if code != 1 {
                if !changed.is_empty() {
                    self.oracle.push(format!("rx-reject-side-effect: frame not accepted (result {}) but slot(s) {:?} changed: {:?} -> {:?}", code, changed,
                        changed.iter().map(|i| (before[*i].0, before[*i].1)).collect::<Vec<_>>(), changed.iter().map(|i| (after[*i].0, after[*i].1)).collect::<Vec<_>>()));
                }
            } else if changed.len() != 1 {
                self.oracle.push(format!("rx-accept-locality: accepted frame changed slots {:?}", changed));
            } else {
                let k = changed[0];
                let idx = bytes.get(17).copied().unwrap_or(0);
                if before[k].0 != 4 || before[k].1 != idx as u16 {
                    self.oracle.push(format!("rx-accept-wrong-slot: accepted into slot {} with status {} key {} for index {}", k, before[k].0, before[k].1, idx));
                }
                if after[k].0 != 6 {
                    self.oracle.push("rx-accept-state: accepted slot is not RxDone".into());
                }
            }
        }
        self.snap();
        code
    }

    fn poll(&mut self, i: usize, windowed: bool) {
        let mut h = self.futs[i].take().unwrap();
        let st_before = self.md.verif_slot(i).0;
        // the timer is only polled when the response is not there yet (status != RxDone)
        let timer_polled = st_before != 6;
        let expired = h.polled && clock::now_us() >= h.deadline;
        if timer_polled {
            h.polled = true;
        }
        let retries = h.retries;
        if expired && (st_before == 3 || st_before == 5) {
            self.windows.push(format!("expiry-while-{}:{}", if st_before == 3 { "tx" } else { "rx" }, if retries == 0 { "release" } else { "retry" }));
        }
        self.cur_poll_expired = expired;
        if windowed {
            self.ops.push(format!("{{\"o\":\"pollbegin\",\"i\":{}}}", i));
            self.win_poll = true;
        } else {
            self.ops.push(format!("{{\"o\":\"poll\",\"i\":{},\"expired\":{},\"retries\":{}}}", i, expired, retries));
        }
        self.poll_was = None;
        WAKE_MD.with(|m| m.set(Some(self.md)));
        let waker = Arc::new(SlotWake(i)).into();
        let mut cx = Context::from_waker(&waker);
        SCHEDULED.with(|s| s.borrow_mut()[i & 15] = false);
        let r = Pin::new(&mut h.fut).poll(&mut cx);
        self.win_poll = false;
        if r.is_pending() { self.waiting[i] = true; } else { self.waiting[i] = false; }
        // no lost wake-up: a task that goes to sleep while its response is already there must have
        // a wake-up pending (the receive side woke it during this poll)
        if r.is_pending() && self.md.verif_slot(i).0 == 6 && !SCHEDULED.with(|s| s.borrow()[i & 15]) {
            self.oracle.push(format!("lost-wake: the poll of slot {} went to sleep although the response is there (RxDone) and no wake-up is pending", i));
        }
        let rt_after = if expired && retries > 0 { retries - 1 } else { retries };
        if windowed {
            match self.poll_was.take() {
                None => {
                    // the CAS succeeded: the whole poll is the first half
                    self.obs.push(1);
                }
                Some(wv) => {
                    self.ops.push(format!("{{\"o\":\"pollend\",\"i\":{},\"was\":{},\"expired\":{},\"retries\":{}}}", i, wv, expired, retries));
                    match &r {
                        Poll::Ready(Ok(_)) => self.obs.push(1),
                        Poll::Pending => self.obs.push(0),
                        Poll::Ready(Err(e)) => {
                            self.obs.push(2);
                            self.obs.extend(err_code(e));
                        }
                    }
                    self.obs.push(rt_after as i64);
                }
            }
        } else {
            match &r {
                Poll::Ready(Ok(_)) => self.obs.extend([1, retries as i64]),
                Poll::Pending => self.obs.extend([0, rt_after as i64]),
                Poll::Ready(Err(e)) => {
                    self.obs.push(2);
                    self.obs.extend(err_code(e));
                    self.obs.push(rt_after as i64);
                }
            }
        }
        match r {
            Poll::Ready(Ok(rf)) => {
                self.received[i] = Some(rf);
            }
            Poll::Pending => {
                if expired && retries > 0 {
                    h.retries = retries - 1;
                    h.deadline = clock::now_us() + h.timeout_us;
                }
                self.futs[i] = Some(h);
            }
            Poll::Ready(Err(_)) => {
                // the future has completed; dropping it now must not touch the slot
                drop(h);
            }
        }
        self.snap();
    }

    /// ReceivedFrame::first_pdu (consumes the frame) -> a view
    fn take(&mut self, i: usize, wrong: u8) {
        let rf = self.received[i].take().unwrap();
        let mut h = match self.handles[i].first() { Some(h) => *h, None => VHandle { index_in_frame: 0, pdu_idx: 0, command_code: 0, alloc_size: 12 } };
        if wrong == 1 { h.pdu_idx = h.pdu_idx.wrapping_add(1); }
        if wrong == 2 { h.command_code ^= 1; }
        self.ops.push(format!("{{\"o\":\"take\",\"i\":{},\"code\":{},\"idx\":{}}}", i, h.command_code, h.pdu_idx));
        let res = std::panic::catch_unwind(std::panic::AssertUnwindSafe(move || rf.first_pdu(h)));
        match res {
            Err(_) => { self.obs.push(-99); self.oracle.push("read-panic: first_pdu panicked".into()); }
            Ok(Err(e)) => { self.obs.push(2); self.obs.extend(err_code(&e)); }
            Ok(Ok(p)) => {
                let bytes = p.bytes().to_vec();
                self.obs.extend([1, p.len() as i64, p.working_counter() as i64]);
                self.obs.extend(bytes.iter().map(|x| *x as i64));
                // byte-exactness against what the network returned for this request
                if wrong == 0 {
                    if let Some(dgs) = self.accepted[i].as_ref().and_then(|acc| parse_dgs_complete(acc)) {
                        match dgs.first() {
                            Some((d, w)) if *d == bytes && *w == p.working_counter() => {}
                            _ => self.oracle.push(format!("routing-bytes: slot {} first_pdu returned data/wkc that differ from the response the network returned", i)),
                        }
                    }
                }
                let len = p.len();
                self.views.push(Some(ViewH { pdu: p, slot: i, start: 10, len, first_seen: bytes }));
            }
        }
        self.snap();
    }

    fn iter(&mut self, i: usize) {
        let rf = self.received[i].take().unwrap();
        self.ops.push(format!("{{\"o\":\"iter\",\"i\":{}}}", i));
        let mut got: Vec<Result<(Vec<u8>, u16), Vec<i64>>> = Vec::new();
        let res = std::panic::catch_unwind(std::panic::AssertUnwindSafe(|| {
            rf.for_each_pdu(|r| match r {
                Ok((d, w)) => got.push(Ok((d.to_vec(), w))),
                Err(e) => got.push(Err(err_code(&e))),
            })
        }));
        if res.is_err() { self.obs.push(-99); self.oracle.push("read-panic: pdu iterator panicked".into()); }
        for g in &got {
            match g {
                Ok((d, w)) => { self.obs.extend([1, d.len() as i64, *w as i64]); self.obs.extend(d.iter().map(|x| *x as i64)); }
                Err(c) => { self.obs.push(2); self.obs.extend(c.iter()); }
            }
        }
        if let Some(dgs) = self.accepted[i].as_ref().and_then(|acc| parse_dgs_complete(acc)) {
            let oks: Vec<(Vec<u8>, u16)> = got.iter().filter_map(|g| g.as_ref().ok().cloned()).collect();
            if oks != dgs {
                self.oracle.push(format!("routing-bytes: slot {} iterator returned {} datagrams that differ from the {} the network returned", i, oks.len(), dgs.len()));
            }
        }
        self.snap();
    }

    fn vread(&mut self, k: usize) {
        let (slot, start, len) = { let v = self.views[k].as_ref().unwrap(); (v.slot, v.start, v.len) };
        self.ops.push(format!("{{\"o\":\"vread\",\"i\":{},\"start\":{},\"len\":{}}}", slot, start, len));
        let v = self.views[k].as_ref().unwrap();
        let now = v.pdu.bytes().to_vec();
        if now.len() != len { self.oracle.push(format!("view-length: view shows {} bytes, expected {}", now.len(), len)); }
        if now != v.first_seen {
            self.oracle.push(format!("view-unstable: a held view into slot {} no longer shows the bytes it showed when it was created", slot));
        }
        self.obs.extend(now.iter().map(|x| *x as i64));
        self.snap();
    }

    fn vtrim(&mut self, k: usize, ct: usize) {
        let v = self.views[k].as_mut().unwrap();
        let before = v.pdu.bytes().to_vec();
        v.pdu.trim_front(ct);
        let c = ct.min(v.len);
        v.start += c;
        v.len -= c;
        v.first_seen = v.first_seen[c.min(v.first_seen.len())..].to_vec();
        let after = v.pdu.bytes().to_vec();
        if after != before[c.min(before.len())..] {
            self.oracle.push(format!("view-trim: after trim_front({}) of a {}-byte view the view shows {} bytes that are not the rest of its data area", ct, before.len(), after.len()));
        }
        self.vread(k);
    }

    fn drop_fut(&mut self, i: usize) {
        let st = self.md.verif_slot(i).0;
        if st == 3 || st == 5 {
            self.windows.push(format!("abandon-while-{}", if st == 3 { "tx" } else { "rx" }));
        }
        self.ops.push(format!("{{\"o\":\"dropf\",\"i\":{}}}", i));
        self.futs[i] = None;
        self.snap();
    }

    fn drop_received(&mut self, i: usize, windowed: bool) {
        let r = self.received[i].take();
        if windowed {
            self.ops.push(format!("{{\"o\":\"dropclear\",\"i\":{}}}", i));
            self.win_drop = true;
            self.dropping = Some(i);
            let res = std::panic::catch_unwind(std::panic::AssertUnwindSafe(move || drop(r)));
            self.win_drop = false;
            self.dropping = None;
            if res.is_err() {
                self.obs.push(-99);
                self.oracle.push("drop-panic: ReceivedFrame::drop panicked".into());
            } else {
                self.obs.push(1);
            }
            self.snap();
        } else {
            self.ops.push(format!("{{\"o\":\"dropr\",\"i\":{}}}", i));
            let res = std::panic::catch_unwind(std::panic::AssertUnwindSafe(move || drop(r)));
            self.obs.push(if res.is_ok() { 1 } else { -99 });
            if res.is_err() {
                self.oracle.push("drop-panic: ReceivedFrame::drop panicked".into());
            }
            self.snap();
        }
    }
}

fn response_for(sent: &[u8], rng: &mut Rng) -> Vec<u8> {
    let mut r = sent.to_vec();
    if r.len() > 6 {
        r[6] |= 0x02;
    }
    // scribble over datagram payloads a little (device answers) but keep headers
    let n = r.len();
    if n > 28 {
        let k = rng.below(3);
        for _ in 0..k {
            let p = 26 + rng.below((n - 26) as u64) as usize;
            r[p] = rng.byte();
        }
    }
    r
}

fn mutate(base: &[u8], rng: &mut Rng, cap: usize) -> Vec<u8> {
    let mut b = base.to_vec();
    match rng.below(10) {
        9 => {
            // genuine response, but longer than the slot it belongs to (length field says so too)
            if b.len() > 17 {
                let l = if rng.chance(1, 2) { cap - 16 + 1 + rng.below(3) as usize } else { (cap - 16 + 1 + rng.below(40) as usize).min(2047) };
                b.resize(16 + l, 0);
                b[14] = l as u8;
                b[15] = 0x10 | ((l >> 8) as u8);
            }
        }
        0 => {
            let k = rng.below(b.len() as u64 + 1) as usize;
            b.truncate(k);
        }
        1 => {
            let extra = rng.range(1, 200) as usize;
            b.extend(rng.bytes(extra));
        }
        2 => {
            if b.len() > 15 {
                // lie in the EtherCAT length field
                let l = rng.below(2048) as u16 | 0x1000;
                b[14] = l as u8;
                b[15] = (l >> 8) as u8;
                if rng.chance(1, 2) {
                    let want = 16 + (l & 0x7ff) as usize;
                    b.resize(want, 0);
                }
            }
        }
        3 => {
            if b.len() > 17 {
                b[17] = rng.byte();
            }
        }
        4 => {
            if b.len() > 13 {
                b[12] = rng.byte();
                b[13] = rng.byte();
            }
        }
        5 => {
            if b.len() > 11 {
                for x in b[6..12].iter_mut() {
                    *x = 0x10;
                }
            }
        }
        6 => {
            if b.len() > 15 {
                b[15] = (b[15] & 0x0f) | ((rng.below(16) as u8) << 4);
            }
        }
        7 => {
            let k = rng.below(b.len().max(1) as u64) as usize;
            if k < b.len() {
                b[k] ^= 1 << rng.below(8);
            }
        }
        _ => {
            let l = rng.below(64) as usize;
            b = rng.bytes(l);
        }
    }
    b
}

/// One randomly chosen operation (state aware).
fn step(w: &mut World, rng: &mut Rng) {
    let n = w.n;
    let cap = w.cap;
    let windows = w.mode == "c06" || w.mode == "c01" || w.mode == "c02";
    let tx_windows = windows || w.mode == "c05";
    let no_deadline = w.mode == "c02" || w.mode == "c01" || w.mode == "c05";
    let c01 = w.mode == "c01";
    let mut ch: Vec<u8> = if c01 { vec![0, 0, 0] } else { vec![0, 0] }; // alloc
    let cr: Vec<usize> = (0..n).filter(|i| w.created[*i].is_some()).collect();
    let fu: Vec<usize> = (0..n).filter(|i| w.futs[*i].is_some()).collect();
    let re: Vec<usize> = (0..n).filter(|i| w.received[*i].is_some()).collect();
    let se: Vec<usize> = (0..n).filter(|i| w.sending[*i].is_some()).collect();
    let vs: Vec<usize> = (0..w.views.len()).filter(|k| w.views[*k].is_some()).collect();
    if c01 {
        // favour complete round trips so that responses actually get read
        if !cr.is_empty() { ch.extend([1, 1, 1, 1, 2, 2, 2, 2, 2, 2]); if rng.chance(1, 6) { ch.push(3); } }
        ch.extend([4, 4, 4, 4]);
        if !se.is_empty() { ch.extend([5, 5, 5, 5, 5, 5]); }
        if w.rx.is_some() { ch.extend([6, 6, 6, 6, 6, 6]); }
        if !fu.is_empty() { ch.extend([7, 7, 7, 7, 7, 7]); if rng.chance(1, 8) { ch.push(8); } }
        if !re.is_empty() { ch.extend([9, 10, 10, 10, 10, 10, 11, 11, 11]); }
        if !vs.is_empty() { ch.extend([12, 12, 12, 13, 13, 14]); }
    } else {
        if !cr.is_empty() {
            ch.extend([1, 1, 1, 2, 2, 3]);
        }
        ch.extend([4, 4]);
        if !se.is_empty() {
            ch.extend([5, 5, 5]);
        }
        if w.rx.is_some() {
            ch.extend([6, 6, 6]);
        }
        if !fu.is_empty() {
            ch.extend([7, 7, 7, 8]);
        }
        if !re.is_empty() {
            ch.extend([9, 9]);
        }
    }
    if !tx_windows && !se.is_empty() {
        ch = vec![5];
    }
    match *rng.pick(&ch) {
        0 => {
            w.alloc();
        }
        1 => {
            let i = *rng.pick(&cr);
            let room = cap - 16;
            let len = match rng.below(4) {
                0 => 0,
                1 => rng.below(room as u64 + 4) as usize,
                _ => rng.below(10) as usize,
            };
            let ovr = match rng.below(4) {
                0 => Some(rng.below(len as u64 + 6) as u16),
                _ => None,
            };
            let data = rng.bytes(len);
            if rng.chance(1, 5) {
                w.push_rest(i, rng.below(11) as u8, rng.edgy(32) as u32, rng.edgy(16) as u16, &data);
            } else {
                w.push(i, rng.below(11) as u8, rng.edgy(32) as u32, rng.edgy(16) as u16, &data, ovr);
            }
        }
        2 => {
            let i = *rng.pick(&cr);
            let t = *rng.pick(&[50u64, 100, 1000]);
            let r = rng.below(3) as usize;
            w.mark(i, t, r);
        }
        3 => {
            let i = *rng.pick(&cr);
            w.drop_created(i);
        }
        4 => {
            w.tx_claim();
        }
        5 => {
            let i = *rng.pick(&se);
            let oc = match rng.below(6) {
                0 => 1,
                1 => 2,
                _ => 0,
            };
            w.tx_done(i, oc);
        }
        6 => {
            // deliver something
            let c05 = w.mode == "c05";
            let bytes = if c05 && rng.chance(1, 4) {
                // a frame aimed at a slot's current first-datagram index, whatever state the slot is in
                let k = rng.below(n as u64) as usize;
                let (_st, key, used) = w.md.verif_slot(k);
                let mut slotb = vec![0u8; cap];
                w.md.verif_slot_bytes(k, &mut slotb);
                let plen = match rng.below(4) { 0 => used, 1 => cap - 16, 2 => cap - 16 + 1 + rng.below(2) as usize, _ => rng.range(2, (cap - 16) as u64) as usize };
                let mut f = vec![0xffu8; 6];
                f.extend([0x12, 0x10, 0x10, 0x10, 0x10, 0x10, 0x88, 0xa4]);
                f.extend([(plen & 0xff) as u8, 0x10 | ((plen >> 8) as u8 & 7)]);
                let mut payload: Vec<u8> = slotb[16..].to_vec();
                payload.resize(plen, 0);
                if plen > 1 { payload[1] = if key < 256 { key as u8 } else { rng.byte() }; }
                f.extend(payload);
                f
            } else if !w.in_flight.is_empty() && rng.chance(3, 4) {
                let k = rng.below(w.in_flight.len() as u64) as usize;
                let base = if rng.chance(3, 4) { w.in_flight.remove(k) } else { w.in_flight[k].clone() };
                let resp = response_for(&base, rng);
                if (c05 && rng.chance(1, 2)) || rng.chance(1, 10) { mutate(&resp, rng, cap) } else { resp }
            } else if !w.sent_frames.is_empty() && rng.chance(1, 2) {
                let k = rng.below(w.sent_frames.len() as u64) as usize;
                let base = w.sent_frames[k].clone();
                let resp = response_for(&base, rng);
                if rng.chance(1, 2) { mutate(&resp, rng, cap) } else { resp }
            } else {
                let l = rng.below(80) as usize;
                let mut b = rng.bytes(l);
                if l > 16 && rng.chance(1, 2) {
                    b[12] = 0x88;
                    b[13] = 0xa4;
                    b[15] = 0x10 | (b[15] & 7);
                }
                b
            };
            let windowed = windows && !w.in_window && rng.chance(1, 3);
            if windowed {
                w.plan[1] = rng.below(3) as usize;
                w.plan[2] = rng.below(2) as usize;
            }
            w.rx(&bytes, windowed);
            w.plan[1] = 0;
            w.plan[2] = 0;
        }
        7 => {
            let i = *rng.pick(&fu);
            if !w.in_window && !no_deadline && rng.chance(1, 3) {
                clock::advance(*rng.pick(&[30u64, 60, 200, 2000]));
            }
            let windowed = windows && !w.in_window && rng.chance(1, 3);
            if windowed {
                w.plan[4] = rng.range(1, 2) as usize;
            }
            w.poll(i, windowed);
            w.plan[4] = 0;
        }
        8 => {
            let i = *rng.pick(&fu);
            let st = w.md.verif_slot(i).0;
            if no_deadline && (st == 3 || st == 5) {
                // abandonment while TX/RX is inside the buffer is C06's window, not part of C02
                w.tx_claim();
            } else {
                w.drop_fut(i);
            }
        }
        10 => {
            let i = *rng.pick(&re);
            let wrong = if rng.chance(1, 8) { rng.range(1, 2) as u8 } else { 0 };
            w.take(i, wrong);
        }
        11 => {
            let i = *rng.pick(&re);
            w.iter(i);
        }
        12 => {
            let k = *rng.pick(&vs);
            w.vread(k);
        }
        13 => {
            let k = *rng.pick(&vs);
            let len = w.views[k].as_ref().unwrap().len;
            let ct = rng.below(len as u64 + 3) as usize;
            w.vtrim(k, ct);
        }
        14 => {
            let k = *rng.pick(&vs);
            w.views[k] = None;
        }
        _ => {
            let i = *rng.pick(&re);
            let windowed = windows && !w.in_window && rng.chance(1, 2);
            if windowed {
                w.plan[3] = rng.range(1, 4) as usize;
            }
            w.drop_received(i, windowed);
            w.plan[3] = 0;
        }
    }
}

fn new_world<const N: usize, const D: usize>(mode: &str) -> Box<World> {
    clock::reset();
    let storage: &'static PduStorage<N, D> = Box::leak(Box::new(PduStorage::<N, D>::new()));
    let (tx, rx, pl) = storage.try_split().unwrap();
    let md: &'static MainDevice<'static> = Box::leak(Box::new(MainDevice::new(pl, Timeouts::default(), MainDeviceConfig::default())));
    Box::new(World {
        md,
        tx,
        rx: Some(rx),
        n: N,
        cap: D,
        created: (0..N).map(|_| None).collect(),
        futs: (0..N).map(|_| None).collect(),
        received: (0..N).map(|_| None).collect(),
        sending: (0..N).map(|_| None).collect(),
        sent_frames: Vec::new(),
        in_flight: Vec::new(),
        ops: Vec::new(),
        obs: Vec::new(),
        full: mode == "c05",
        mode: mode.to_string(),
        oracle: Vec::new(),
        waiting: vec![false; 64],
        windows: Vec::new(),
        plan: [0; 5],
        win_rx: None,
        rx_phase: 0,
        win_drop: false,
        win_poll: false,
        poll_was: None,
        cur_poll_expired: false,
        in_window: false,
        handles: (0..N).map(|_| Vec::new()).collect(),
        accepted: (0..N).map(|_| None).collect(),
        views: Vec::new(),
        last_status: vec![0; N],
        rx_inside: None,
        dropping: None,
        building: (0..N).map(|_| Vec::new()).collect(),
        expect: (0..N).map(|_| None).collect(),
        expect_tx: (0..N).map(|_| None).collect(),
    })
}

/// let go of everything, then the full capacity must be allocatable (C03 probe)
fn drain_probe(w: &mut World) {
    let n = w.n;
    // every still-held view is read once more, then dropped
    for k in 0..w.views.len() {
        if w.views[k].is_some() { w.vread(k); w.views[k] = None; }
    }
    let se: Vec<usize> = (0..n).filter(|i| w.sending[*i].is_some()).collect();
    for i in se {
        w.tx_done(i, 0);
    }
    for i in 0..n {
        if w.created[i].is_some() {
            w.drop_created(i);
        }
        if w.futs[i].is_some() {
            w.drop_fut(i);
        }
        if w.received[i].is_some() {
            w.drop_received(i, false);
        }
    }
    let mut got = 0;
    for _ in 0..n {
        if w.alloc().is_some() {
            got += 1;
        }
    }
    let extra = w.alloc().is_some();
    if got != n {
        w.oracle.push(format!("capacity-lost: after all handles were dropped only {} of {} frames could be allocated", got, n));
    }
    if extra {
        w.oracle.push("capacity-exceeded: more frames than slots could be allocated".into());
    }
}

fn finish(w: &World, kind: &str) -> String {
    format!(
        "{{\"kind\":\"{}\",\"n\":{},\"cap\":{},\"full\":{},\"ops\":[{}],\"obs\":[{}],\"oracle\":[{}],\"windows\":[{}]}}",
        kind,
        w.n,
        w.cap,
        w.full,
        w.ops.join(","),
        w.obs.iter().map(|x| x.to_string()).collect::<Vec<_>>().join(","),
        w.oracle.iter().map(|s| format!("{:?}", s)).collect::<Vec<_>>().join(","),
        w.windows.iter().map(|s| format!("{:?}", s)).collect::<Vec<_>>().join(",")
    )
}

fn history<const N: usize, const D: usize>(rng: &mut Rng, mode: &str, depth: usize) -> String {
    let mut w = new_world::<N, D>(mode);
    CTL.with(|c| c.set((&mut *w as *mut World, rng as *mut Rng)));
    verif::set_yield_hook(Some(hook));
    for _ in 0..depth {
        step(&mut w, rng);
    }
    drain_probe(&mut w);
    verif::set_yield_hook(None);
    CTL.with(|c| c.set((std::ptr::null_mut(), std::ptr::null_mut())));
    finish(&w, "history")
}

/// C06 count clause: a request whose response is lost (all transmissions, or all but one).
/// The transmit task services every sendable frame before the next deadline.
fn scenario_count<const N: usize, const D: usize>(rng: &mut Rng, retries: usize, deliver_after: Option<usize>, late_poll: bool) -> String {
    let mut w = new_world::<N, D>("c06");
    verif::set_yield_hook(None);
    let t = *rng.pick(&[50u64, 100, 1000]);
    let i = w.alloc().unwrap();
    let len = rng.below(8) as usize;
    let data = rng.bytes(len);
    w.push(i, rng.below(11) as u8, rng.edgy(32) as u32, rng.edgy(16) as u16, &data, None);
    if rng.chance(1, 2) && D - 16 > 40 {
        w.push(i, 2, 0x1001, 0x130, &[], Some(2));
    }
    w.mark(i, t, retries);
    // a competing request on another slot, left alone
    if N > 1 && rng.chance(1, 2) {
        if let Some(j) = w.alloc() {
            w.push(j, 3, 0, 0, &[], Some(1));
        }
    }
    let mut transmissions: Vec<Vec<u8>> = Vec::new();
    let mut outcome = String::new();
    for _round in 0..(retries + 4) {
        match w.tx_claim() {
            Some(k) if k == i => {
                let b = w.tx_done(k, 0);
                transmissions.push(b);
            }
            Some(k) => {
                w.tx_done(k, 0);
                continue;
            }
            None => {}
        }
        if let Some(d) = deliver_after {
            if transmissions.len() == d + 1 {
                let resp = response_for(transmissions.last().unwrap(), rng);
                w.rx(&resp, false);
                if late_poll {
                    // the deadline passes before the caller looks: the response must still win
                    clock::advance(t + 5);
                }
            }
        }
        if w.futs[i].is_none() {
            break;
        }
        w.poll(i, false); // the first poll arms the timer
        if w.futs[i].is_none() {
            outcome = if w.received[i].is_some() { "ok".into() } else { "err".into() };
            break;
        }
        clock::advance(t + 1);
        w.poll(i, false);
        if w.futs[i].is_none() {
            outcome = if w.received[i].is_some() { "ok".into() } else { "err".into() };
            break;
        }
    }
    if outcome.is_empty() {
        outcome = "pending".into();
    }
    let identical = transmissions.windows(2).all(|p| p[0] == p[1]);
    match deliver_after {
        None => {
            if transmissions.len() != retries + 1 {
                w.oracle.push(format!("retry-count: {} transmissions for retries={} (expected {})", transmissions.len(), retries, retries + 1));
            }
            if outcome != "err" {
                w.oracle.push(format!("lost-response-outcome: request without response ended as {:?}", outcome));
            }
        }
        Some(d) => {
            if outcome != "ok" {
                w.oracle.push(format!("response-ignored: response after transmission {} (late_poll={}) ended as {:?}", d + 1, late_poll, outcome));
            }
            if transmissions.len() != d + 1 {
                w.oracle.push(format!("retry-count: {} transmissions, response after {}", transmissions.len(), d + 1));
            }
        }
    }
    if !identical {
        w.oracle.push("retransmission-differs: a retransmission is not byte-identical to the first transmission".into());
    }
    drain_probe(&mut w);
    finish(&w, "count")
}

fn main() {
    let args: Vec<String> = std::env::args().collect();
    let mode = args[1].clone();
    let seed: u64 = args[2].parse().unwrap();
    let n: usize = args[3].parse().unwrap();
    let depth: usize = args[4].parse().unwrap();
    let mut rng = Rng::new(seed);
    for k in 0..n {
        let d = if mode == "c05" { depth } else { depth / 2 + (rng.below(depth as u64 / 2 + 1) as usize) };
        if mode == "c06" && k % 3 == 0 {
            let retries = rng.below(4) as usize;
            let deliver = match rng.below(3) {
                0 => None,
                _ => Some(rng.below(retries as u64 + 1) as usize),
            };
            let late = rng.chance(1, 2);
            let line = match k % 2 {
                0 => scenario_count::<1, 60>(&mut rng, retries, deliver, late),
                _ => scenario_count::<2, 72>(&mut rng, retries, deliver, late),
            };
            println!("{}", line);
            continue;
        }
        let line = match k % 6 {
            0 => history::<1, 44>(&mut rng, &mode, d),
            1 => history::<2, 44>(&mut rng, &mode, d),
            2 => history::<2, 60>(&mut rng, &mode, d),
            3 => history::<4, 48>(&mut rng, &mode, d),
            4 => history::<1, 60>(&mut rng, &mode, d),
            _ => history::<4, 72>(&mut rng, &mode, d),
        };
        println!("{}", line);
    }
}
