//! PDU-loop history harness (C03, C05, C06, ...): drives the real frame slots through random
//! operation histories using the cfg(ethercrab_verif) wrappers and prints, per history, the ops
//! and the observation vector in the same encoding as coq/Pdu/Slots.v `obs_history`.
use ethercrab::verif::{VCreated, VFuture, VReceived};
use ethercrab::{Command, MainDevice, MainDeviceConfig, PduRx, PduStorage, PduTx, Reads, SendableFrame, Timeouts, Writes};
use std::future::Future;
use std::pin::Pin;
use std::sync::Arc;
use std::task::{Context, Poll, Wake};
use std::time::Duration;
use vharness::clock;
use vharness::rng::Rng;

struct NoopWake;
impl Wake for NoopWake {
    fn wake(self: Arc<Self>) {}
}

fn command(kind: u8, a: u32, r: u16) -> Command {
    match kind {
        0 => Command::Nop,
        1 => Command::aprd(a as u16, r).into(),
        2 => Command::fprd(a as u16, r).into(),
        3 => Command::brd(r).into(),
        4 => Command::Read(Reads::Lrd { address: a }),
        5 => Command::bwr(r).into(),
        6 => Command::apwr(a as u16, r).into(),
        7 => Command::fpwr(a as u16, r).into(),
        8 => Command::frmw(a as u16, r).into(),
        9 => Command::lwr(a).into(),
        _ => Command::Write(Writes::Lrw { address: a }),
    }
}

fn bytes_json(b: &[u8]) -> String {
    format!("[{}]", b.iter().map(|x| x.to_string()).collect::<Vec<_>>().join(","))
}

fn err_code(e: &ethercrab::error::Error) -> Vec<i64> {
    use ethercrab::error::{Error, PduError};
    match e {
        Error::Pdu(PduError::Ethernet) => vec![10],
        Error::Wire(ethercrab_wire::WireError::ReadBufferTooShort) => vec![11],
        Error::Wire(ethercrab_wire::WireError::InvalidValue) => vec![12],
        Error::ReceiveFrame => vec![13],
        Error::Internal => vec![14],
        Error::Pdu(PduError::Decode) => vec![15],
        Error::Pdu(PduError::InvalidIndex(k)) => vec![16, *k as i64],
        Error::Pdu(PduError::InvalidFrameState) => vec![17],
        Error::Pdu(PduError::SwapState) => vec![18],
        Error::Timeout(_) => vec![19],
        Error::Pdu(PduError::TooLong) => vec![20],
        _ => vec![99],
    }
}

struct FutH {
    fut: VFuture<'static>,
    deadline: u64,
    timeout_us: u64,
    retries: usize,
    /// embassy's Timer only fires from its second poll on
    polled: bool,
}

struct World {
    md: &'static MainDevice<'static>,
    tx: PduTx<'static>,
    rx: PduRx<'static>,
    n: usize,
    cap: usize,
    created: Vec<Option<VCreated<'static>>>,
    futs: Vec<Option<FutH>>,
    received: Vec<Option<VReceived<'static>>>,
    sending: Vec<Option<SendableFrame<'static>>>,
    sent_frames: Vec<Vec<u8>>,
    ops: Vec<String>,
    obs: Vec<i64>,
    full: bool,
    /// spec-oracle notes (violations of C03/C05 seen directly on the implementation)
    oracle: Vec<String>,
}

impl World {
    fn snap(&mut self) {
        self.obs.push(-1);
        for i in 0..self.n {
            let (st, key, used) = self.md.verif_slot(i);
            self.obs.extend([st as i64, key as i64, used as i64]);
            if self.full {
                let mut b = vec![0u8; self.cap];
                self.md.verif_slot_bytes(i, &mut b);
                self.obs.extend(b[16..].iter().map(|x| *x as i64));
            }
        }
        self.obs.push(-2);
    }

    fn full_snapshot(&self) -> Vec<(u8, u16, usize, Vec<u8>)> {
        (0..self.n)
            .map(|i| {
                let (st, key, used) = self.md.verif_slot(i);
                let mut b = vec![0u8; self.cap];
                self.md.verif_slot_bytes(i, &mut b);
                (st, key, used, b)
            })
            .collect()
    }

    fn alloc(&mut self) -> Option<usize> {
        self.ops.push("{\"o\":\"alloc\"}".into());
        let r = match self.md.verif_alloc_frame() {
            Ok(f) => {
                let i = f.slot() as usize;
                self.obs.extend([1, i as i64]);
                if self.created[i].is_some() || self.futs[i].is_some() || self.received[i].is_some() {
                    self.oracle.push(format!("alloc handed out slot {} which still has a live handle", i));
                }
                self.created[i] = Some(f);
                Some(i)
            }
            Err(e) => {
                self.obs.push(0);
                self.obs.extend(err_code(&e));
                None
            }
        };
        self.snap();
        r
    }

    fn push(&mut self, i: usize, kind: u8, a: u32, r: u16, data: &[u8], ovr: Option<u16>) {
        self.ops.push(format!("{{\"o\":\"push\",\"i\":{},\"kind\":{},\"a\":{},\"r\":{},\"data\":{},\"ovr\":{}}}", i, kind, a, r, bytes_json(data), ovr.map(|o| o.to_string()).unwrap_or("null".into())));
        let f = self.created[i].as_mut().unwrap();
        match f.push_pdu(command(kind, a, r), data, ovr) {
            Ok(h) => self.obs.extend([1, h.pdu_idx as i64, h.index_in_frame as i64, h.alloc_size as i64]),
            Err(_) => self.obs.push(2),
        }
        self.snap();
    }

    fn push_rest(&mut self, i: usize, kind: u8, a: u32, r: u16, data: &[u8]) {
        self.ops.push(format!("{{\"o\":\"rest\",\"i\":{},\"kind\":{},\"a\":{},\"r\":{},\"data\":{}}}", i, kind, a, r, bytes_json(data)));
        let f = self.created[i].as_mut().unwrap();
        match f.push_pdu_slice_rest(command(kind, a, r), data) {
            Ok(None) => self.obs.push(3),
            Ok(Some((n, h))) => self.obs.extend([4, n as i64, h.pdu_idx as i64, h.index_in_frame as i64, h.alloc_size as i64]),
            Err(_) => self.obs.push(2),
        }
        self.snap();
    }

    fn mark(&mut self, i: usize, timeout_us: u64, retries: usize) {
        self.ops.push(format!("{{\"o\":\"mark\",\"i\":{}}}", i));
        let f = self.created[i].take().unwrap();
        let fut = f.mark_sendable(self.md, Duration::from_micros(timeout_us), retries);
        self.futs[i] = Some(FutH { fut, deadline: clock::now_us() + timeout_us, timeout_us, retries, polled: false });
        self.snap();
    }

    fn drop_created(&mut self, i: usize) {
        self.ops.push(format!("{{\"o\":\"dropc\",\"i\":{}}}", i));
        self.created[i] = None;
        self.snap();
    }

    fn tx_claim(&mut self) -> Option<usize> {
        self.ops.push("{\"o\":\"txclaim\"}".into());
        let r = match self.tx.next_sendable_frame() {
            Some(s) => {
                // storage_slot_index is crate-private: find the slot by its status (Sending = 3)
                let mut idx = None;
                for i in 0..self.n {
                    if self.md.verif_slot(i).0 == 3 && self.sending[i].is_none() {
                        idx = Some(i);
                        break;
                    }
                }
                let i = idx.expect("claimed frame has a Sending slot");
                self.obs.extend([1, i as i64, s.len() as i64]);
                self.sending[i] = Some(s);
                Some(i)
            }
            None => {
                self.obs.push(0);
                None
            }
        };
        self.snap();
        r
    }

    fn tx_done(&mut self, i: usize, outcome: u8) {
        self.ops.push(format!("{{\"o\":\"txdone\",\"i\":{},\"oc\":{}}}", i, outcome));
        let s = self.sending[i].take().unwrap();
        let mut seen = Vec::new();
        let _ = s.send_blocking(|b| {
            seen = b.to_vec();
            match outcome {
                0 => Ok(b.len()),
                1 => Ok(b.len().saturating_sub(1)),
                _ => Err(ethercrab::error::Error::SendFrame),
            }
        });
        self.obs.extend(seen.iter().map(|x| *x as i64));
        if outcome == 0 {
            self.sent_frames.push(seen);
        }
        self.snap();
    }

    fn rx(&mut self, bytes: &[u8]) -> i64 {
        self.ops.push(format!("{{\"o\":\"rx\",\"bytes\":{}}}", bytes_json(bytes)));
        let before = self.full_snapshot();
        let res = std::panic::catch_unwind(std::panic::AssertUnwindSafe(|| self.rx.receive_frame(bytes)));
        let code = match res {
            Err(_) => {
                self.obs.push(-99);
                self.oracle.push("receive_frame panicked".into());
                -99
            }
            Ok(Ok(ethercrab::ReceiveAction::Ignored)) => {
                self.obs.push(0);
                0
            }
            Ok(Ok(ethercrab::ReceiveAction::Processed)) => {
                self.obs.push(1);
                1
            }
            Ok(Err(e)) => {
                self.obs.push(2);
                self.obs.extend(err_code(&e));
                2
            }
        };
        let after = self.full_snapshot();
        // C05 oracle, stated on the implementation alone
        let changed: Vec<usize> = (0..self.n).filter(|i| before[*i] != after[*i]).collect();
        if code != 1 {
            if !changed.is_empty() {
                self.oracle.push(format!("rx-reject-side-effect: frame not accepted (result {}) but slot(s) {:?} changed: {:?} -> {:?}", code, changed,
                    changed.iter().map(|i| (before[*i].0, before[*i].1)).collect::<Vec<_>>(), changed.iter().map(|i| (after[*i].0, after[*i].1)).collect::<Vec<_>>()));
            }
        } else {
            if changed.len() != 1 {
                self.oracle.push(format!("rx-accept-locality: accepted frame changed slots {:?}", changed));
            } else {
                let k = changed[0];
                let idx = bytes.get(17).copied().unwrap_or(0);
                if before[k].0 != 4 || before[k].1 != idx as u16 {
                    self.oracle.push(format!("rx-accept-wrong-slot: accepted into slot {} with status {} key {} for index {}", k, before[k].0, before[k].1, idx));
                }
                if after[k].0 != 6 {
                    self.oracle.push("rx-accept-state: accepted slot is not RxDone".into());
                }
            }
        }
        self.snap();
        code
    }

    fn poll(&mut self, i: usize) {
        let h = self.futs[i].as_mut().unwrap();
        let st_before = self.md.verif_slot(i).0;
        // the timer is only polled when the response is not there yet (status != RxDone)
        let timer_polled = st_before != 6;
        let expired = h.polled && clock::now_us() >= h.deadline;
        if timer_polled { h.polled = true; }
        let retries = h.retries;
        self.ops.push(format!("{{\"o\":\"poll\",\"i\":{},\"expired\":{},\"retries\":{}}}", i, expired, retries));
        let waker = Arc::new(NoopWake).into();
        let mut cx = Context::from_waker(&waker);
        let r = Pin::new(&mut h.fut).poll(&mut cx);
        match r {
            Poll::Ready(Ok(rf)) => {
                self.obs.extend([1, retries as i64]);
                self.futs[i] = None;
                self.received[i] = Some(rf);
            }
            Poll::Pending => {
                let mut rt = retries;
                if expired && retries > 0 {
                    rt -= 1;
                    h.retries = rt;
                    h.deadline = clock::now_us() + h.timeout_us;
                }
                self.obs.extend([0, rt as i64]);
            }
            Poll::Ready(Err(e)) => {
                let mut rt = retries;
                if expired && retries > 0 {
                    rt -= 1;
                }
                self.obs.push(2);
                self.obs.extend(err_code(&e));
                self.obs.push(rt as i64);
                // the future has completed; dropping it now must not touch the slot
                self.futs[i] = None;
            }
        }
        self.snap();
    }

    fn drop_fut(&mut self, i: usize) {
        self.ops.push(format!("{{\"o\":\"dropf\",\"i\":{}}}", i));
        self.futs[i] = None;
        self.snap();
    }

    fn drop_received(&mut self, i: usize) {
        self.ops.push(format!("{{\"o\":\"dropr\",\"i\":{}}}", i));
        let r = self.received[i].take();
        let res = std::panic::catch_unwind(std::panic::AssertUnwindSafe(move || drop(r)));
        self.obs.push(if res.is_ok() { 1 } else { -99 });
        self.snap();
    }
}

fn response_for(sent: &[u8], rng: &mut Rng) -> Vec<u8> {
    let mut r = sent.to_vec();
    if r.len() > 6 {
        r[6] |= 0x02;
    }
    // scribble over datagram payloads a little (device answers) but keep headers
    let n = r.len();
    if n > 28 {
        let k = rng.below(3);
        for _ in 0..k {
            let p = 26 + rng.below((n - 26) as u64) as usize;
            r[p] = rng.byte();
        }
    }
    r
}

fn mutate(base: &[u8], rng: &mut Rng, cap: usize) -> Vec<u8> {
    let mut b = base.to_vec();
    match rng.below(10) {
        9 => {
            // genuine response, but longer than the slot it belongs to (length field says so too)
            if b.len() > 17 {
                let l = (cap - 16 + 1 + rng.below(40) as usize).min(2047);
                b.resize(16 + l, 0);
                b[14] = l as u8;
                b[15] = 0x10 | ((l >> 8) as u8);
            }
        }
        0 => {
            let k = rng.below(b.len() as u64 + 1) as usize;
            b.truncate(k);
        }
        1 => {
            let extra = rng.range(1, 200) as usize;
            b.extend(rng.bytes(extra));
        }
        2 => {
            if b.len() > 15 {
                // lie in the EtherCAT length field
                let l = rng.below(2048) as u16 | 0x1000;
                b[14] = l as u8;
                b[15] = (l >> 8) as u8;
                if rng.chance(1, 2) {
                    let want = 16 + (l & 0x7ff) as usize;
                    b.resize(want, 0);
                }
            }
        }
        3 => {
            if b.len() > 17 {
                b[17] = rng.byte();
            }
        }
        4 => {
            if b.len() > 13 {
                b[12] = rng.byte();
                b[13] = rng.byte();
            }
        }
        5 => {
            if b.len() > 11 {
                for x in b[6..12].iter_mut() {
                    *x = 0x10;
                }
            }
        }
        6 => {
            if b.len() > 15 {
                b[15] = (b[15] & 0x0f) | ((rng.below(16) as u8) << 4);
            }
        }
        7 => {
            let k = rng.below(b.len().max(1) as u64) as usize;
            if k < b.len() {
                b[k] ^= 1 << rng.below(8);
            }
        }
        _ => {
            let l = rng.below(64) as usize;
            b = rng.bytes(l);
        }
    }
    b
}

fn history<const N: usize, const D: usize>(rng: &mut Rng, mode: &str, depth: usize) -> String {
    clock::reset();
    let storage: &'static PduStorage<N, D> = Box::leak(Box::new(PduStorage::<N, D>::new()));
    let (tx, rx, pl) = storage.try_split().unwrap();
    let md: &'static MainDevice<'static> = Box::leak(Box::new(MainDevice::new(pl, Timeouts::default(), MainDeviceConfig::default())));
    let mut w = World {
        md, tx, rx, n: N, cap: D,
        created: (0..N).map(|_| None).collect(), futs: (0..N).map(|_| None).collect(),
        received: (0..N).map(|_| None).collect(), sending: (0..N).map(|_| None).collect(),
        sent_frames: Vec::new(), ops: Vec::new(), obs: Vec::new(), full: mode == "c05", oracle: Vec::new(),
    };
    let windows = mode == "c06"; // allow other ops while TX holds a frame
    let mut in_flight: Vec<Vec<u8>> = Vec::new();
    for _ in 0..depth {
        // enabled choices
        let mut ch: Vec<u8> = vec![0, 0]; // alloc
        let cr: Vec<usize> = (0..N).filter(|i| w.created[*i].is_some()).collect();
        let fu: Vec<usize> = (0..N).filter(|i| w.futs[*i].is_some()).collect();
        let re: Vec<usize> = (0..N).filter(|i| w.received[*i].is_some()).collect();
        let se: Vec<usize> = (0..N).filter(|i| w.sending[*i].is_some()).collect();
        if !cr.is_empty() { ch.extend([1, 1, 1, 2, 2, 3]); }
        ch.extend([4, 4]);
        if !se.is_empty() { ch.extend([5, 5, 5]); }
        ch.extend([6, 6, 6]);
        if !fu.is_empty() { ch.extend([7, 7, 7, 8]); }
        if !re.is_empty() { ch.extend([9, 9]); }
        if !windows && !se.is_empty() { ch = vec![5]; }
        match *rng.pick(&ch) {
            0 => { w.alloc(); }
            1 => {
                let i = *rng.pick(&cr);
                let room = D - 16;
                let len = match rng.below(4) { 0 => 0, 1 => rng.below(room as u64 + 4) as usize, _ => rng.below(10) as usize };
                let ovr = match rng.below(4) { 0 => Some(rng.below(len as u64 + 6) as u16), _ => None };
                let data = rng.bytes(len);
                if rng.chance(1, 5) { w.push_rest(i, rng.below(11) as u8, rng.edgy(32) as u32, rng.edgy(16) as u16, &data); }
                else { w.push(i, rng.below(11) as u8, rng.edgy(32) as u32, rng.edgy(16) as u16, &data, ovr); }
            }
            2 => { let i = *rng.pick(&cr); let t = *rng.pick(&[50u64, 100, 1000]); let r = rng.below(3) as usize; w.mark(i, t, r); }
            3 => { let i = *rng.pick(&cr); w.drop_created(i); }
            4 => { w.tx_claim(); }
            5 => {
                let i = *rng.pick(&se);
                let oc = match rng.below(6) { 0 => 1, 1 => 2, _ => 0 };
                w.tx_done(i, oc);
                if oc == 0 { let f = w.sent_frames.last().unwrap().clone(); in_flight.push(f); }
            }
            6 => {
                // deliver something
                let bytes = if !in_flight.is_empty() && rng.chance(3, 4) {
                    let k = rng.below(in_flight.len() as u64) as usize;
                    let base = if rng.chance(3, 4) { in_flight.remove(k) } else { in_flight[k].clone() };
                    let resp = response_for(&base, rng);
                    if mode == "c05" && rng.chance(1, 2) { mutate(&resp, rng, D) } else if rng.chance(1, 10) { mutate(&resp, rng, D) } else { resp }
                } else if !w.sent_frames.is_empty() && rng.chance(1, 2) {
                    let k = rng.below(w.sent_frames.len() as u64) as usize;
                    let base = w.sent_frames[k].clone();
                    let resp = response_for(&base, rng);
                    if rng.chance(1, 2) { mutate(&resp, rng, D) } else { resp }
                } else {
                    let l = rng.below(80) as usize;
                    let mut b = rng.bytes(l);
                    if l > 16 && rng.chance(1, 2) { b[12] = 0x88; b[13] = 0xa4; b[15] = 0x10 | (b[15] & 7); }
                    b
                };
                w.rx(&bytes);
            }
            7 => {
                let i = *rng.pick(&fu);
                if rng.chance(1, 3) { clock::advance(*rng.pick(&[30u64, 60, 200, 2000])); }
                w.poll(i);
            }
            8 => { let i = *rng.pick(&fu); w.drop_fut(i); }
            _ => { let i = *rng.pick(&re); w.drop_received(i); }
        }
    }
    // ---- C03 probe: let go of everything, then the full capacity must be allocatable ----
    let se: Vec<usize> = (0..N).filter(|i| w.sending[*i].is_some()).collect();
    for i in se { w.tx_done(i, 0); }
    for i in 0..N {
        if w.created[i].is_some() { w.drop_created(i); }
        if w.futs[i].is_some() { w.drop_fut(i); }
        if w.received[i].is_some() { w.drop_received(i); }
    }
    let mut got = 0;
    for _ in 0..N {
        if w.alloc().is_some() { got += 1; }
    }
    let extra = w.alloc().is_some();
    if got != N {
        w.oracle.push(format!("capacity-lost: after all handles were dropped only {} of {} frames could be allocated", got, N));
    }
    if extra {
        w.oracle.push("capacity-exceeded: more frames than slots could be allocated".into());
    }
    format!("{{\"n\":{},\"cap\":{},\"full\":{},\"ops\":[{}],\"obs\":[{}],\"oracle\":[{}]}}", N, D, w.full,
        w.ops.join(","), w.obs.iter().map(|x| x.to_string()).collect::<Vec<_>>().join(","),
        w.oracle.iter().map(|s| format!("{:?}", s)).collect::<Vec<_>>().join(","))
}

fn main() {
    let args: Vec<String> = std::env::args().collect();
    let mode = args[1].clone();
    let seed: u64 = args[2].parse().unwrap();
    let n: usize = args[3].parse().unwrap();
    let depth: usize = args[4].parse().unwrap();
    let mut rng = Rng::new(seed);
    for k in 0..n {
        let d = if mode == "c05" { depth } else { depth / 2 + (rng.below(depth as u64 / 2 + 1) as usize) };
        let line = match k % 6 {
            0 => history::<1, 44>(&mut rng, &mode, d),
            1 => history::<2, 44>(&mut rng, &mode, d),
            2 => history::<2, 60>(&mut rng, &mode, d),
            3 => history::<4, 48>(&mut rng, &mode, d),
            4 => history::<1, 60>(&mut rng, &mode, d),
            _ => history::<4, 72>(&mut rng, &mode, d),
        };
        println!("{}", line);
    }
}
