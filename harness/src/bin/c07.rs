//! C07/C18(cycle part) harness: one process-data cycle of a group built by the verification hook,
//! against a wire that answers every datagram with random data and working counters.
use ethercrab::subdevice_group::{NoDc, Op};
use ethercrab::{verif, DcSupport, DcSync, MainDevice, MainDeviceConfig, PduStorage, SubDeviceGroup, Timeouts};
use vharness::net::{self, RunEnd};
use vharness::rng::Rng;

const MAX_SD: usize = 64;
const MAX_PDI: usize = 4096;

fn bytes_json(b: &[u8]) -> String {
    format!("[{}]", b.iter().map(|x| x.to_string()).collect::<Vec<_>>().join(","))
}

/// the response's own state summaries, in the order of the C10 model's obs_summary
fn summ<const N: usize, T>(r: &ethercrab::TxRxResponse<N, T>) -> String {
    use ethercrab::SubDeviceState as S;
    let single = r.group_in_single_state().map(|s| u8::from(s) as i64).unwrap_or(-1);
    let v: Vec<String> = [S::None, S::Init, S::PreOp, S::Bootstrap, S::SafeOp, S::Op].iter().map(|s| (r.is_in_state(*s) as u8).to_string()).collect();
    format!(",\"summ\":[{},{},{},{}]", r.group_state().bits(), single, r.all_op() as u8, v.join(","))
}

struct Dg {
    cmd: u8,
    adp: u16,
    ado: u16,
    data: Vec<u8>,
}

fn parse(frame: &[u8]) -> Vec<(usize, Dg)> {
    let mut out = Vec::new();
    let mut pos = 16;
    loop {
        if frame.len() < pos + 12 {
            break;
        }
        let lf = u16::from_le_bytes([frame[pos + 6], frame[pos + 7]]);
        let len = (lf & 0x7ff) as usize;
        out.push((pos, Dg {
            cmd: frame[pos], adp: u16::from_le_bytes([frame[pos + 2], frame[pos + 3]]),
            ado: u16::from_le_bytes([frame[pos + 4], frame[pos + 5]]), data: frame[pos + 10..pos + 10 + len].to_vec(),
        }));
        if lf & 0x8000 == 0 {
            break;
        }
        pos += 12 + len;
    }
    out
}

fn run_case<const D: usize>(rng: &mut Rng, variant: u8, release: bool) -> String {
    let storage: &'static PduStorage<4, D> = Box::leak(Box::new(PduStorage::<4, D>::new()));
    let (mut tx, mut rx, pl) = storage.try_split().unwrap();
    let md: &'static MainDevice<'static> = Box::leak(Box::new(MainDevice::new(pl, Timeouts::default(), MainDeviceConfig::default())));
    let room = D - 16;
    let n = match rng.below(4) { 0 => 0, 1 => rng.below(4) as usize, 2 => rng.below(MAX_SD as u64 + 1) as usize, _ => rng.below(12) as usize };
    let pdi_len = match rng.below(5) { 0 => 0, 1 => rng.below(room as u64 + 3) as usize, 2 => (room.saturating_sub(12) * (1 + rng.below(3) as usize) + rng.below(3) as usize).min(MAX_PDI), 3 => rng.below(MAX_PDI as u64 + 1) as usize, _ => rng.below(64) as usize };
    let pdi_len = if room < 48 { pdi_len.min(600) } else { pdi_len };
    let rlen = match rng.below(4) { 0 => 0, 1 => pdi_len, _ => rng.below(pdi_len as u64 + 1) as usize };
    let start = rng.edgy(20) as u32;
    let addrs: Vec<u16> = (0..n).map(|i| 0x1000 + i as u16).collect();
    let dcref: u16 = if variant == 0 { 0 } else if variant == 1 && rng.chance(1, 5) { 0 } else { 0x1000 + rng.below(4) as u16 };
    md.verif_set_network(n as u16, dcref);
    let group: SubDeviceGroup<MAX_SD, MAX_PDI, ethercrab::DefaultLock, Op, NoDc> = SubDeviceGroup::verif_new(
        addrs.iter().map(|a| verif::subdevice(*a, DcSupport::None, DcSync::Disabled)), start, pdi_len, rlen);
    let img = rng.bytes(pdi_len);
    group.verif_pdi_set(&img);
    let period = rng.edgy(32).max(1);
    let shift = rng.edgy(32);
    // the wire: random answers
    let mut answers: Vec<String> = Vec::new();
    let mut frames: Vec<String> = Vec::new();
    let big_wkc = rng.chance(1, 6);
    let mut wrng = Rng::new(rng.next());
    let mut wire = |f: &[u8]| -> Option<Vec<u8>> {
        let mut r = f.to_vec();
        r[6] |= 2;
        let dgs = parse(f);
        let mut fa = Vec::new();
        let mut fd = Vec::new();
        for (pos, d) in &dgs {
            let len = d.data.len();
            let data: Vec<u8> = if d.cmd == 4 { let mut v = vec![wrng.byte() & 0x1f, wrng.byte()]; v.resize(len, 0); v } else { wrng.bytes(len) };
            let wkc: u16 = if big_wkc { wrng.edgy(16) as u16 } else { wrng.below(7) as u16 };
            r[pos + 10..pos + 10 + len].copy_from_slice(&data);
            r[pos + 10 + len] = wkc as u8;
            r[pos + 11 + len] = (wkc >> 8) as u8;
            fa.push(format!("[{},{}]", bytes_json(&data), wkc));
            fd.push(match d.cmd {
                12 => format!("[1,{},{}]", (d.adp as u32) | ((d.ado as u32) << 16), bytes_json(&d.data)),
                4 => format!("[2,{}]", d.adp),
                14 => format!("[3,{}]", d.adp),
                c => format!("[9,{}]", c),
            });
        }
        answers.push(format!("[{}]", fa.join(",")));
        frames.push(format!("[{}]", fd.join(",")));
        Some(r)
    };
    let mut log = Vec::new();
    let res: String = match variant {
        0 => {
            let r = std::panic::catch_unwind(std::panic::AssertUnwindSafe(|| net::run(group.tx_rx(md), &mut tx, &mut rx, &mut wire, &mut log, 3000)));
            match r {
                Err(_) => "\"res\":\"PANIC\"".into(),
                Ok(RunEnd::Done(Ok(resp))) => format!("\"res\":\"Ok\",\"wkc\":{},\"time\":0,\"states\":[{}]", resp.working_counter, resp.subdevice_states.iter().map(|s| u8::from(*s).to_string()).collect::<Vec<_>>().join(",")) + &summ(&resp),
                Ok(RunEnd::Done(Err(e))) => format!("\"res\":\"Err\",\"err\":\"{:?}\"", e),
                Ok(_) => "\"res\":\"HANG\"".into(),
            }
        }
        1 => {
            let r = std::panic::catch_unwind(std::panic::AssertUnwindSafe(|| net::run(group.tx_rx_sync_system_time(md), &mut tx, &mut rx, &mut wire, &mut log, 3000)));
            match r {
                Err(_) => "\"res\":\"PANIC\"".into(),
                Ok(RunEnd::Done(Ok(resp))) => format!("\"res\":\"Ok\",\"wkc\":{},\"time\":{},\"timesome\":{},\"states\":[{}]", resp.working_counter, resp.extra.unwrap_or(0), resp.extra.is_some(), resp.subdevice_states.iter().map(|s| u8::from(*s).to_string()).collect::<Vec<_>>().join(",")) + &summ(&resp),
                Ok(RunEnd::Done(Err(e))) => format!("\"res\":\"Err\",\"err\":\"{:?}\"", e),
                Ok(_) => "\"res\":\"HANG\"".into(),
            }
        }
        _ => {
            let g = group.verif_with_dc(dcref, period, shift);
            let r = std::panic::catch_unwind(std::panic::AssertUnwindSafe(|| net::run(g.tx_rx_dc(md), &mut tx, &mut rx, &mut wire, &mut log, 3000)));
            let s = match r {
                Err(_) => "\"res\":\"PANIC\"".into(),
                Ok(RunEnd::Done(Ok(resp))) => format!("\"res\":\"Ok\",\"wkc\":{},\"time\":{},\"off\":{},\"wait\":{},\"states\":[{}]", resp.working_counter, resp.extra.dc_system_time, resp.extra.cycle_start_offset.as_nanos(), resp.extra.next_cycle_wait.as_nanos(), resp.subdevice_states.iter().map(|s| u8::from(*s).to_string()).collect::<Vec<_>>().join(",")) + &summ(&resp),
                Ok(RunEnd::Done(Err(e))) => format!("\"res\":\"Err\",\"err\":\"{:?}\"", e),
                Ok(_) => "\"res\":\"HANG\"".into(),
            };
            let mut out = vec![0u8; pdi_len];
            g.verif_pdi_get(&mut out);
            return format!("{{\"variant\":2,\"release\":{},\"cap\":{},\"start\":{},\"len\":{},\"rlen\":{},\"subs\":{:?},\"dcref\":{},\"period\":{},\"shift\":{},\"img\":{},\"answers\":[{}],\"frames\":[{}],{},\"img_after\":{}}}",
                release, D, start, pdi_len, rlen, addrs, dcref, period, shift, bytes_json(&img), answers.join(","), frames.join(","), s, bytes_json(&out));
        }
    };
    let mut out = vec![0u8; pdi_len];
    group.verif_pdi_get(&mut out);
    format!("{{\"variant\":{},\"release\":{},\"cap\":{},\"start\":{},\"len\":{},\"rlen\":{},\"subs\":{:?},\"dcref\":{},\"period\":{},\"shift\":{},\"img\":{},\"answers\":[{}],\"frames\":[{}],{},\"img_after\":{}}}",
        variant, release, D, start, pdi_len, rlen, addrs, dcref, period, shift, bytes_json(&img), answers.join(","), frames.join(","), res, bytes_json(&out))
}

fn main() {
    let args: Vec<String> = std::env::args().collect();
    let seed: u64 = args[1].parse().unwrap();
    let n: usize = args[2].parse().unwrap();
    let release = cfg!(not(debug_assertions));
    let mut rng = Rng::new(seed);
    for k in 0..n {
        let variant = (k % 3) as u8;
        let line = match rng.below(10) {
            0 => if variant == 0 { run_case::<30>(&mut rng, variant, release) } else { run_case::<50>(&mut rng, variant, release) },
            1 => if variant == 0 { run_case::<31>(&mut rng, variant, release) } else { run_case::<51>(&mut rng, variant, release) },
            2 => run_case::<64>(&mut rng, variant, release),
            3 => run_case::<78>(&mut rng, variant, release),
            4 => run_case::<128>(&mut rng, variant, release),
            5 => run_case::<300>(&mut rng, variant, release),
            6 => run_case::<1100>(&mut rng, variant, release),
            7 => run_case::<1514>(&mut rng, variant, release),
            8 => if variant == 0 { run_case::<43>(&mut rng, variant, release) } else { run_case::<63>(&mut rng, variant, release) },
            _ => run_case::<200>(&mut rng, variant, release),
        };
        println!("{}", line);
    }
}
