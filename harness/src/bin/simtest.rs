//! Self-test of the segment simulator against the real MainDevice. Prints PASS/FAIL lines and
//! exits non-zero on failure. `MASTER` lines document behaviour of the real master that deviates
//! from the standard behaviour the simulator implements (they are findings, not simulator faults).
//!
//! `simtest [filter]` runs only the cases whose name contains `filter`.
use ethercrab::{
    error::Error, subdevice_group::Op, MainDevice, MainDeviceConfig, PduRx, PduStorage, PduTx, RetryBehaviour,
    SubDeviceGroup, SubDeviceState, Timeouts,
};
use std::cell::RefCell;
use std::panic::{catch_unwind, AssertUnwindSafe};
use std::time::Duration;
use vharness::net::{self, Exchange, RunEnd};
use vharness::sim::coe::{self, Emergency};
use vharness::sim::device::*;
use vharness::sim::eeprom::*;
use vharness::sim::segment::*;
use vharness::sim::CoeQuirks;
use vharness::{clock, rng::Rng};

const MAXDEV: usize = 16;
const MAXPDI: usize = 256;
const FRAME: usize = PduStorage::element_size(1100);

thread_local! {
    static FAILS: RefCell<Vec<String>> = const { RefCell::new(Vec::new()) };
    static CASE: RefCell<String> = const { RefCell::new(String::new()) };
}

fn check(cond: bool, what: &str) -> bool {
    let case = CASE.with(|c| c.borrow().clone());
    if cond {
        println!("PASS {}: {}", case, what);
    } else {
        println!("FAIL {}: {}", case, what);
        FAILS.with(|f| f.borrow_mut().push(format!("{}: {}", case, what)));
    }
    cond
}
/// A deviation of the real master from the standard behaviour.
fn master(what: &str) {
    let case = CASE.with(|c| c.borrow().clone());
    println!("MASTER {}: {}", case, what);
}
fn info(what: &str) {
    let case = CASE.with(|c| c.borrow().clone());
    println!("INFO {}: {}", case, what);
}

struct Env {
    tx: PduTx<'static>,
    rx: PduRx<'static>,
    md: &'static MainDevice<'static>,
    log: Vec<Exchange>,
}

fn env(timeouts: Timeouts, config: MainDeviceConfig) -> Env {
    clock::reset();
    let (tx, rx, pl) = net::storage::<16, FRAME>();
    let md: &'static MainDevice<'static> = Box::leak(Box::new(MainDevice::new(pl, timeouts, config)));
    Env { tx, rx, md, log: Vec::new() }
}

fn quick_config() -> MainDeviceConfig {
    MainDeviceConfig { dc_static_sync_iterations: 50, ..Default::default() }
}
fn short_timeouts() -> Timeouts {
    Timeouts {
        state_transition: Duration::from_millis(100),
        mailbox_response: Duration::from_millis(50),
        mailbox_echo: Duration::from_millis(20),
        ..Default::default()
    }
}

fn now_ns() -> u64 {
    clock::now_us() * 1000
}

#[derive(Debug)]
enum Outcome<T> {
    Done(T),
    Stuck,
    FrameLimit,
    Panic(String),
}
impl<T> Outcome<T> {
    fn done(self) -> Option<T> {
        match self {
            Outcome::Done(v) => Some(v),
            Outcome::Stuck => {
                println!("   (run ended: Stuck)");
                None
            }
            Outcome::FrameLimit => {
                println!("   (run ended: FrameLimit)");
                None
            }
            Outcome::Panic(m) => {
                println!("   (run ended: master panicked: {})", m);
                None
            }
        }
    }
}

impl Env {
    /// Run a future of the master against the segment. A panic inside the master is caught and
    /// reported as `Outcome::Panic` (the PDU storage may be unusable afterwards).
    fn run<T>(&mut self, seg: &mut Segment, max_frames: usize, fut: impl std::future::Future<Output = T>) -> Outcome<T> {
        self.log.clear();
        let r = catch_unwind(AssertUnwindSafe(|| net::run(fut, &mut self.tx, &mut self.rx, seg, &mut self.log, max_frames)));
        match r {
            Ok(RunEnd::Done(v)) => Outcome::Done(v),
            Ok(RunEnd::Stuck) => Outcome::Stuck,
            Ok(RunEnd::FrameLimit) => Outcome::FrameLimit,
            Err(p) => Outcome::Panic(
                p.downcast_ref::<String>().cloned().or_else(|| p.downcast_ref::<&str>().map(|s| s.to_string())).unwrap_or_default(),
            ),
        }
    }
}

type Group = SubDeviceGroup<MAXDEV, MAXPDI>;
type GroupOp = SubDeviceGroup<MAXDEV, MAXPDI, ethercrab::DefaultLock, Op>;

fn init(e: &mut Env, seg: &mut Segment) -> Option<Result<Group, Error>> {
    let md = e.md;
    e.run(seg, 300_000, async move { md.init_single_group::<MAXDEV, MAXPDI>(now_ns).await }).done()
}
fn init_ok(e: &mut Env, seg: &mut Segment) -> Option<Group> {
    match init(e, seg) {
        Some(Ok(g)) => {
            check(true, "init ok");
            Some(g)
        }
        Some(Err(err)) => {
            check(false, &format!("init ok (got {:?})", err));
            None
        }
        None => {
            check(false, "init finished");
            None
        }
    }
}

// ---------------------------------------------------------------------------------------------
// 0. builder vs real dumps
// ---------------------------------------------------------------------------------------------
fn case_eeprom_layout() {
    for f in ["akd.hex", "ek1100.hex", "el2828.hex", "el2889.hex", "el2262.bin"] {
        let img = std::fs::read(format!("/repo/dumps/eeprom/{}", f)).expect("dump");
        let d = decode(&img);
        let rebuilt = d.build();
        let d2 = decode(&rebuilt);
        check(d == d2, &format!("{}: decode(build(decode(dump))) == decode(dump)", f));
        check(
            rebuilt[0..0x40] == img[0..0x40] && rebuilt[0x7c..0x80] == img[0x7c..0x80],
            &format!("{}: fixed words 0x00..0x20 (alias, checksum, identity, mailbox) and size/version byte-identical", f),
        );
        if f == "el2262.bin" {
            continue; // Latin-1 strings: `String` in DeviceDesc is lossy for those
        }
        let mut a: Vec<(u16, Vec<u8>)> = walk_categories(&img).iter().map(|(t, o, l)| (*t, img[*o..*o + *l].to_vec())).collect();
        let mut b: Vec<(u16, Vec<u8>)> = walk_categories(&rebuilt).iter().map(|(t, o, l)| (*t, rebuilt[*o..*o + *l].to_vec())).collect();
        // the general category has reserved bytes the builder zeroes: compare the defined part
        for v in a.iter_mut().chain(b.iter_mut()) {
            if v.0 == CAT_GENERAL {
                v.1[4] = 0;
                v.1[14] = 0;
                v.1[15] = 0;
                v.1.truncate(20);
            }
        }
        a.sort();
        b.sort();
        check(a == b, &format!("{}: every category payload reproduced byte for byte ({} categories)", f, a.len()));
    }
    let crc_ok = ["akd.hex", "ek1100.hex", "el2828.hex", "el2889.hex", "el2262.bin", "hbm_clipx_eeprom_dump.bin"].iter().all(|f| {
        let img = std::fs::read(format!("/repo/dumps/eeprom/{}", f)).unwrap();
        sii_crc(&img[0..14]) == img[14]
    });
    check(crc_ok, "sii_crc reproduces the checksum byte of all six real dumps");
}

// ---------------------------------------------------------------------------------------------
// 1. init on 0 / 1 / 3 / 8 devices
// ---------------------------------------------------------------------------------------------
fn mk_simple(i: usize, read8: bool) -> Device {
    let mut d = DeviceDesc::simple_io(&format!("SIM{:02}", i), 1 + i % 3, 2 + i % 2);
    d.vendor_id = 0x1000 + i as u32;
    d.product_id = 0x2000_0000 + i as u32;
    d.revision = 0x10 + i as u32;
    d.serial = 0xABC0 + i as u32;
    d.alias = if i % 2 == 1 { 0x0100 + i as u16 } else { 0 };
    d.extra_strings = vec![format!("Long description of device {}", i)];
    d.general.as_mut().unwrap().name_idx = 2;
    if i % 3 == 0 {
        // unknown / vendor categories around the standard ones, as on real devices
        d.leading_categories.push((0x0800, vec![1, 2, 3, 4, 5, 6]));
        d.trailing_categories.push((CAT_DC, vec![0; 24]));
    }
    let mut dev = Device::new(d, EscInfo::default());
    dev.sii.read8 = read8;
    dev
}

fn case_init(n: usize, read8: bool, dup_addresses: bool) {
    let mut e = env(Timeouts::default(), quick_config());
    let mut devs: Vec<Device> = (0..n).map(|i| mk_simple(i, read8 && (i % 2 == 0 || n == 1))).collect();
    if dup_addresses {
        for d in devs.iter_mut() {
            d.set_station_address(0x1001); // leftovers of a previous master run
        }
    }
    let mut seg = Segment::chain(devs);
    let Some(group) = init_ok(&mut e, &mut seg) else { return };
    check(group.len() == n && e.md.num_subdevices() == n, &format!("group has {} devices", n));
    let md = e.md;
    let mut all = true;
    for (i, sd) in group.iter(md).enumerate() {
        let want = &seg.devices[i].desc;
        let id = sd.identity();
        let ok = sd.configured_address() == 0x1000 + i as u16
            && sd.name() == want.name
            && id.vendor_id == want.vendor_id
            && id.product_id == want.product_id
            && id.revision == want.revision
            && id.serial == want.serial
            && sd.alias_address() == want.alias
            && seg.devices[i].station_address() == 0x1000 + i as u16
            && seg.devices[i].al_state() == AL_PREOP;
        if !ok {
            all = false;
            println!("   device {}: {} {:?} alias {:#x} addr {:#x}", i, sd.name(), id, sd.alias_address(), sd.configured_address());
        }
    }
    check(all, "every device: address 0x1000+i, name, identity, alias as built; register 0x0010; PRE-OP");
    if n > 0 {
        let g = &group;
        let descs: Vec<Option<String>> = e
            .run(&mut seg, 100_000, async move {
                let mut v = Vec::new();
                for sd in g.iter(md) {
                    v.push(sd.description().await.ok().flatten().map(|s| s.as_str().to_string()));
                }
                v
            })
            .done()
            .unwrap_or_default();
        let ok = descs.len() == n && descs.iter().enumerate().all(|(i, d)| d.as_deref() == Some(seg.devices[i].desc.extra_strings[0].as_str()));
        check(ok, "description() returns string 2 of every device");
        let sizes: Vec<usize> = e
            .run(&mut seg, 100_000, async move {
                let mut v = Vec::new();
                for sd in g.iter(md) {
                    v.push(sd.eeprom_size(md).await.unwrap_or(0));
                }
                v
            })
            .done()
            .unwrap_or_default();
        check(sizes.iter().all(|s| *s == 2048), &format!("eeprom_size() = 2048 for every device ({:?})", sizes));
    }
    check(seg.violations.is_empty(), "no malformed frames");
}

// ---------------------------------------------------------------------------------------------
// 2. PDO configuration (CoE + EEPROM), OP, process data without cross-talk
// ---------------------------------------------------------------------------------------------
fn pd_segment() -> Segment {
    let mut coupler = Device::new(DeviceDesc::coupler("COUPLER"), EscInfo::default());
    coupler.sii.read8 = true;
    let mut a = Device::new(DeviceDesc::coe_io("COE-A", 128, 2, 3), EscInfo::default());
    a.app = App::Loopback { xor: 0xFF };
    let mut b = Device::new(DeviceDesc::simple_io("EEP-B", 1, 2), EscInfo::default());
    b.app = App::Counter { value: 0x40 };
    // C: two TxPDOs assigned, second one has non-byte entries (12 + 4 bits)
    let mut cd = DeviceDesc::coe_io("COE-C", 64, 4, 1);
    cd.tx_pdos.push(PdoDesc {
        index: 0x1A01,
        sm: 3,
        sync: 0,
        name_idx: 0,
        flags: 0,
        entries: vec![
            PdoEntryDesc { index: 0x6010, sub: 1, name_idx: 0, data_type: 6, bit_len: 12, flags: 0 },
            PdoEntryDesc { index: 0x6010, sub: 2, name_idx: 0, data_type: 1, bit_len: 4, flags: 0 },
        ],
    });
    let mut c = Device::new(cd, EscInfo::default());
    c.app = App::Loopback { xor: 0x00 };
    let mut d = Device::new(DeviceDesc::simple_io("EEP-D", 0, 2), EscInfo::default());
    d.app = App::Custom(Box::new(|_st, _o, i| {
        i.copy_from_slice(&[0xD0, 0x0D][..i.len()]);
    }));
    Segment::chain(vec![coupler, a, b, c, d])
}

fn into_op(e: &mut Env, seg: &mut Segment, group: Group) -> Option<GroupOp> {
    let md = e.md;
    match e.run(seg, 300_000, async move { group.into_op(md).await }).done() {
        Some(Ok(g)) => {
            check(true, "into_op ok");
            Some(g)
        }
        Some(Err(err)) => {
            check(false, &format!("into_op ok (got {:?})", err));
            None
        }
        None => {
            check(false, "into_op finished");
            None
        }
    }
}

fn case_process_data() {
    let mut e = env(Timeouts::default(), quick_config());
    let mut seg = pd_segment();
    let Some(group) = init_ok(&mut e, &mut seg) else { return };
    let md = e.md;
    // change the PDO assignment of device C through CoE before SAFE-OP: only 0x1A01 (2 bytes)
    let g = &group;
    let r = e
        .run(&mut seg, 100_000, async move {
            let sd = g.subdevice(md, 3)?;
            sd.sdo_write_array(0x1C13, [0x1A01u16]).await?;
            sd.sdo_read_array::<u16, 4>(0x1C13).await
        })
        .done();
    check(matches!(&r, Some(Ok(v)) if v.as_slice() == [0x1A01]), &format!("sdo_write_array / sdo_read_array 0x1C13 ({:?})", r));
    let Some(group) = into_op(&mut e, &mut seg, group) else {
        for (i, d) in seg.devices.iter().enumerate() {
            println!("   dev {} AL {:#x} err {} code {:#06x}", i, d.al.state, d.al.error, d.al.code);
        }
        return;
    };
    check(seg.devices.iter().all(|d| d.al_state() == AL_OP && !d.al.error), "all devices in OP (strict AL checks of SM lengths passed)");
    // io lengths as seen by the master vs. what the devices expect
    let want: [(usize, usize); 5] = [(0, 0), (3, 2), (2, 1), (2, 4), (2, 0)];
    let mut lens = Vec::new();
    for sd in group.iter(md) {
        lens.push((sd.inputs_raw().len(), sd.outputs_raw().len()));
    }
    check(lens == want, &format!("(inputs, outputs) lengths per device {:?}", lens));
    // SM / FMMU registers in the devices
    let c = &seg.devices[3];
    check(c.sm(2).len == 4 && c.sm(3).len == 2 && c.sm(3).enabled(), "COE-C SM2 len 4, SM3 len 2 (re-assigned PDO)");
    let f = c.fmmu(1);
    check(f.enabled && f.read && !f.write && f.len == 2 && f.phys_start == 0x1c00, &format!("COE-C input FMMU {:?}", f));
    check(seg.devices[0].fmmu(0).enabled == false, "coupler has no FMMU enabled");

    // cycle 1: write distinct outputs
    for (i, sd) in group.iter(md).enumerate() {
        let mut o = sd.outputs_raw_mut();
        for (k, b) in o.iter_mut().enumerate() {
            *b = (0x10 * (i as u8 + 1)).wrapping_add(k as u8);
        }
    }
    let g = &group;
    let r1 = e.run(&mut seg, 1000, async move { g.tx_rx(md).await }).done();
    let r2 = e.run(&mut seg, 1000, async move { g.tx_rx(md).await }).done();
    let (Some(Ok(r1)), Some(Ok(r2))) = (r1, r2) else {
        check(false, "tx_rx ok");
        return;
    };
    // expected WKC: LRW read +1 per device with inputs, write +2 per device with outputs
    let exp_wkc: u16 = want.iter().map(|(i, o)| (*i > 0) as u16 + 2 * (*o > 0) as u16).sum();
    check(r1.working_counter == exp_wkc && r2.working_counter == exp_wkc, &format!("tx_rx working counter {} (expected {})", r2.working_counter, exp_wkc));
    check(r2.subdevice_states.iter().all(|s| *s == SubDeviceState::Op) && r2.subdevice_states.len() == 5, "tx_rx reports 5 x OP");
    let outs: Vec<Vec<u8>> = seg.devices.iter().map(|d| d.outputs()).collect();
    check(
        outs == vec![vec![], vec![0x20, 0x21], vec![0x30], vec![0x40, 0x41, 0x42, 0x43], vec![]],
        &format!("outputs landed in the right device memory, no cross-talk {:02x?}", outs),
    );
    let ins: Vec<Vec<u8>> = group.iter(md).map(|sd| sd.inputs_raw().to_vec()).collect();
    // The application runs at the end of each process data frame, so cycle 2 reads what cycle 1 produced.
    // A: loopback xor FF of [20,21] over 3 input bytes (third stays 0); B: counter started at 0x40;
    // C: loopback of first two output bytes; D: constant
    check(
        ins == vec![vec![], vec![0xDF, 0xDE, 0x00], vec![0x40, 0x41], vec![0x40, 0x41], vec![0xD0, 0x0D]],
        &format!("inputs of every device arrive in its own PDI slice {:02x?}", ins),
    );
    // the LRW datagram as seen on the wire
    let lrw: Vec<&DgramLog> = seg.log.iter().filter(|l| l.cmd == CMD_LRW).collect();
    check(lrw.len() == 2 && lrw[1].len as usize == want.iter().map(|(i, o)| i + o).sum::<usize>(), "one LRW per cycle covering the whole PDI");
    // direct memory check of an input window
    check(seg.devices[4].mem[0x1000..0x1002] == [0xD0, 0x0D], "EEP-D input SM memory inspectable via dev.mem");

    // LWR / LRD on their own
    let c_out = seg.devices[3].fmmu(0).logical_start;
    let d_in = seg.devices[4].fmmu(0).logical_start; // EEP-D has a single SM (inputs) -> FMMU0
    let r = e
        .run(&mut seg, 1000, async move {
            ethercrab::Command::lwr(c_out).with_wkc(1).send(md, [9u8, 8, 7, 6]).await?;
            let v = ethercrab::Reads::Lrd { address: d_in }.wrap().with_wkc(1).receive::<[u8; 2]>(md).await?;
            // a logical range nobody maps: WKC 0, data untouched
            let w = ethercrab::Reads::Lrd { address: 0x0100_0000 }.wrap().with_wkc(0).receive::<[u8; 2]>(md).await?;
            Ok::<_, Error>((v, w))
        })
        .done();
    check(
        matches!(r, Some(Ok(([0xD0, 0x0D], [0, 0])))) && seg.devices[3].outputs() == [9, 8, 7, 6],
        &format!("LWR (WKC 1) writes COE-C outputs, LRD (WKC 1) reads EEP-D inputs, unmapped LRD has WKC 0 ({:x?})", r),
    );

    // fault: device B drops out -> WKC changes, states show it
    let n = seg.frame_no;
    seg.faults.push(Fault::DropOut { device: 2, after_frame: n });
    let _ = e.run(&mut seg, 1000, async move { g.tx_rx(md).await }).done();
    let r3 = e.run(&mut seg, 1000, async move { g.tx_rx(md).await }).done();
    match r3 {
        Some(Ok(r)) => check(r.working_counter == exp_wkc - 3, &format!("after drop-out of EEP-B the LRW working counter is {} (expected {})", r.working_counter, exp_wkc - 3)),
        other => check(false, &format!("tx_rx after drop-out returns ({:?})", other.map(|r| r.map(|x| x.working_counter)))),
    };
}

// ---------------------------------------------------------------------------------------------
// 3. SDO transfers
// ---------------------------------------------------------------------------------------------
const MBX: u16 = 48;

fn sdo_segment(quirks: CoeQuirks) -> Segment {
    let mut d = Device::new(DeviceDesc::coe_io("SDODEV", MBX, 1, 1), EscInfo::default());
    d.mbx.as_mut().unwrap().quirks = quirks;
    let od = d.od();
    od.set_u8(0x2000, 0, 0xA5);
    od.set_u16(0x2001, 0, 0xBEEF);
    od.set_u32(0x2002, 0, 0xDEAD_C0DE);
    od.set(0x2003, 0, b"0123456789");
    od.set(0x2004, 0, &(0..100u8).collect::<Vec<u8>>());
    od.set(0x2005, 0, &[1, 2, 3]);
    od.set(0x2006, 0, b"Hello SDO world, this is a longer string!"); // 41 bytes > 32
    od.set(0x2007, 0, &(0..32u8).collect::<Vec<u8>>()); // exactly fills the mailbox: normal
    od.set(0x2008, 0, &(0..33u8).collect::<Vec<u8>>()); // one more: segmented, 1 byte segment
    od.read_only.insert((0x2005, 0));
    Segment::chain(vec![d])
}

fn case_sdo_basic() {
    let mut e = env(short_timeouts(), quick_config());
    let mut seg = sdo_segment(CoeQuirks::default());
    let Some(group) = init_ok(&mut e, &mut seg) else { return };
    let md = e.md;
    let g = &group;
    let r = e
        .run(&mut seg, 100_000, async move {
            let sd = g.subdevice(md, 0)?;
            let a = sd.sdo_read::<u8>(0x2000, 0).await?;
            let b = sd.sdo_read::<u16>(0x2001, 0).await?;
            let c = sd.sdo_read::<u32>(0x2002, 0).await?;
            let d = sd.sdo_read::<[u8; 10]>(0x2003, 0).await?;
            let s = sd.sdo_read::<heapless::String<16>>(0x2003, 0).await?;
            let f = sd.sdo_read::<[u8; 32]>(0x2007, 0).await?;
            Ok::<_, Error>((a, b, c, d, s, f))
        })
        .done();
    match &r {
        Some(Ok((a, b, c, d, s, f))) => {
            check(*a == 0xA5 && *b == 0xBEEF && *c == 0xDEAD_C0DE, "expedited uploads of 1, 2, 4 bytes");
            check(d == b"0123456789" && s.as_str() == "0123456789", "normal upload of 10 bytes into [u8; 10] and heapless::String<16>");
            check(f.iter().enumerate().all(|(i, b)| *b == i as u8), "normal upload exactly filling the mailbox (32 bytes in a 48 byte mailbox)");
        }
        other => {
            check(false, &format!("uploads ok ({:?})", other));
        }
    }
    // 3-byte object into a u32 is a decode error (size mismatch), into [u8;3] works
    let r = e
        .run(&mut seg, 100_000, async move {
            let sd = g.subdevice(md, 0)?;
            sd.sdo_read::<[u8; 3]>(0x2005, 0).await
        })
        .done();
    check(matches!(r, Some(Ok([1, 2, 3]))), &format!("expedited upload of 3 bytes ({:?})", r));
    // downloads
    let r = e
        .run(&mut seg, 100_000, async move {
            let sd = g.subdevice(md, 0)?;
            sd.sdo_write(0x2000, 0, 0x5Au8).await?;
            sd.sdo_write(0x2001, 0, 0x1234u16).await?;
            sd.sdo_write(0x2002, 0, 0x0BAD_F00Du32).await?;
            Ok::<_, Error>(())
        })
        .done();
    let od = seg.devices[0].od();
    check(
        matches!(r, Some(Ok(()))) && od.get_uint(0x2000, 0) == Some(0x5A) && od.get_uint(0x2001, 0) == Some(0x1234) && od.get_uint(0x2002, 0) == Some(0x0BAD_F00D),
        &format!("expedited downloads of 1, 2, 4 bytes stored in the dictionary ({:?})", r),
    );
    // aborts
    let r = e
        .run(&mut seg, 100_000, async move {
            let sd = g.subdevice(md, 0)?;
            let a = sd.sdo_read::<u8>(0x3000, 0).await;
            let b = sd.sdo_read::<u8>(0x2000, 7).await;
            let c = sd.sdo_write(0x2005, 0, 9u8).await;
            Ok::<_, Error>((a, b, c))
        })
        .done();
    let txt = format!("{:?}", r);
    check(
        txt.contains("NotFound") || txt.contains("0x06020000") || txt.contains("Aborted"),
        &format!("unknown object / sub-index / read-only download are reported as aborts ({})", txt),
    );
    let ev = &seg.devices[0].mbx.as_ref().unwrap().events;
    let aborts: Vec<Option<u32>> = ev.iter().rev().take(3).map(|e| e.abort).collect();
    check(
        aborts == vec![Some(coe::ABORT_READ_ONLY), Some(coe::ABORT_NO_SUBINDEX), Some(coe::ABORT_NO_OBJECT)],
        &format!("server sent abort codes 0x06020000 / 0x06090011 / 0x06010002 ({:x?})", aborts),
    );
    // complete access upload of the identity object (sub 1..4)
    let r = e
        .run(&mut seg, 100_000, async move {
            let sd = g.subdevice(md, 0)?;
            let a = sd.sdo_read::<[u8; 16]>(0x1018, ethercrab::SubIndex::Complete).await?;
            let b = sd.sdo_read::<[u32; 4]>(0x1018, ethercrab::SubIndex::Complete).await;
            Ok::<_, Error>((a, b))
        })
        .done();
    let want = &seg.devices[0].desc;
    let mut bytes = Vec::new();
    for v in [want.vendor_id, want.product_id, want.revision, want.serial] {
        bytes.extend_from_slice(&v.to_le_bytes());
    }
    check(
        matches!(&r, Some(Ok((a, _))) if a[..] == bytes[..]),
        &format!("complete access upload of 0x1018 from sub-index 1 into [u8; 16] ({:x?})", r),
    );
    if let Some(Ok((_, Err(err)))) = &r {
        master(&format!("the same 16 byte upload into [u32; 4] fails with {:?}: ethercrab-wire gives [u32; N] a receive buffer of N (not 4N) bytes", err));
    }
    // SDO information service
    let r = e
        .run(&mut seg, 100_000, async move {
            let sd = g.subdevice(md, 0)?;
            let q = sd.sdo_info_object_quantities().await?;
            let l = sd.sdo_info_object_description_list(ethercrab::ObjectDescriptionListQuery::All).await?;
            Ok::<_, Error>((q.map(|q| q.all), l.map(|l| l.to_vec())))
        });
    let all = seg.devices[0].od().indices();
    match &r {
        Outcome::Done(Ok((Some(n), Some(l)))) if *n as usize == all.len() && *l == all => {
            check(true, &format!("SDO info: object quantities ({}) and OD list match the dictionary", n));
        }
        Outcome::Done(Ok((n, l))) => {
            // the 48 byte mailbox needs two fragments for the list of 19 indices
            master(&format!("SDO info OD list sent in standard fragments (list type only in the first one): quantities {:?}, list {:x?}, dictionary {:x?}", n, l, all));
        }
        other => master(&format!("SDO info services: {:?}", other)),
    }
    // > 4 byte download is not implemented by the master
    let r = e
        .run(&mut seg, 100_000, async move {
            let sd = g.subdevice(md, 0)?;
            sd.sdo_write(0x2003, 0, [9u8; 10]).await
        })
        .done();
    if !matches!(r, Some(Ok(()))) {
        master(&format!("sdo_write of 10 bytes (normal download) is not supported: {:?}", r));
    }
    // too small target buffer
    let r = e
        .run(&mut seg, 100_000, async move {
            let sd = g.subdevice(md, 0)?;
            sd.sdo_read::<[u8; 4]>(0x2003, 0).await
        })
        .done();
    check(format!("{:?}", r).contains("TooLong"), &format!("10 byte object into [u8; 4] -> MailboxError::TooLong ({:?})", r));
}

/// Segmented upload with the given server quirks; returns a description of what the master did.
fn segmented_attempt(label: &str, quirks: CoeQuirks, index: u16) -> (String, bool) {
    let mut e = env(short_timeouts(), quick_config());
    let mut seg = sdo_segment(quirks);
    let Some(Ok(group)) = init(&mut e, &mut seg) else {
        return ("init failed".into(), false);
    };
    let md = e.md;
    let g = &group;
    let want = seg.devices[0].od().get(index, 0).unwrap().clone();
    let out = e.run(&mut seg, 100_000, async move {
        let sd = g.subdevice(md, 0)?;
        sd.sdo_read::<heapless::Vec<u8, 128>>(index, 0).await
    });
    let segs = seg.devices[0].mbx.as_ref().unwrap().events.iter().filter(|e| e.kind == "segment").count();
    let (txt, ok) = match out {
        Outcome::Done(Ok(v)) => {
            let ok = v.as_slice() == want.as_slice();
            (
                if ok { format!("Ok, {} bytes correct", v.len()) } else { format!("Ok but WRONG data: got {} bytes {:02x?}.. expected {} bytes {:02x?}..", v.len(), &v[..v.len().min(12)], want.len(), &want[..12.min(want.len())]) },
                ok,
            )
        }
        Outcome::Done(Err(err)) => (format!("Err({:?})", err), false),
        Outcome::Panic(m) => (format!("PANIC in master: {}", m), false),
        Outcome::Stuck => ("stuck".into(), false),
        Outcome::FrameLimit => ("frame limit".into(), false),
    };
    (format!("{} [{:#06x}, {} bytes, {} segment requests served]: {}", label, index, want.len(), segs, txt), ok)
}

fn case_sdo_segmented() {
    // standard server
    let (txt, ok) = segmented_attempt("standard server", CoeQuirks::default(), 0x2004);
    if ok {
        check(true, &txt);
    } else {
        master(&txt);
    }
    let (txt2, ok2) = segmented_attempt("standard server", CoeQuirks::default(), 0x2008);
    if !ok2 {
        master(&txt2);
    }
    // which deviation from the standard does the master need?
    let q1 = CoeQuirks { segment_response_command: 3, ..Default::default() };
    let (t, o) = segmented_attempt("scs=3 in segment responses", q1.clone(), 0x2004);
    if !o {
        master(&t);
    } else {
        info(&t);
    }
    let q2 = CoeQuirks { segment_response_command: 3, segmented_initiate_carries_data: false, ..Default::default() };
    let (t, o) = segmented_attempt("scs=3 + initiate response without data", q2.clone(), 0x2004);
    if !o {
        master(&t);
    } else {
        info(&t);
    }
    let q3 = CoeQuirks { segment_response_command: 3, segmented_initiate_carries_data: false, segment_max: Some(7), ..Default::default() };
    let (t, o) = segmented_attempt("scs=3 + no initiate data + 7 byte segments", q3, 0x2004);
    if !o {
        master(&t);
    } else {
        info(&t);
    }
    let (t, o) = segmented_attempt("scs=3 + initiate response without data", q2, 0x2006);
    if !o {
        master(&t);
    } else {
        info(&t);
    }
    // the only server the master's segmented upload works against: three non-standard deviations
    let q4 = CoeQuirks { segment_response_command: 3, segmented_initiate_carries_data: false, segment_data_pad: 3, ..Default::default() };
    for idx in [0x2004u16, 0x2006, 0x2008] {
        let (t, o) = segmented_attempt("scs=3 + no initiate data + segment data at offset 12 instead of 9", q4.clone(), idx);
        check(o, &format!("master's segmented upload completes against a server bent three ways: {}", t));
    }
    // The simulator side of the protocol is checked independently of the master: drive the
    // server directly and reassemble per CiA 301.
    let mut seg = sdo_segment(CoeQuirks::default());
    let srv = seg.devices[0].mbx.as_mut().unwrap();
    let mut req = coe::raw_coe(1, coe::COE_SDO_REQUEST, &[0x40, 0x04, 0x20, 0, 0, 0, 0, 0]);
    req.resize(MBX as usize, 0);
    let first = srv.handle(&req, MBX as usize).remove(0);
    let total = u32::from_le_bytes(first[12..16].try_into().unwrap()) as usize;
    let mut data = first[16..6 + u16::from_le_bytes([first[0], first[1]]) as usize].to_vec();
    let mut toggle = 0u8;
    let mut ok = first[8] == 0x41 && total == 100;
    while data.len() < total {
        let mut rq = coe::raw_coe(2, coe::COE_SDO_REQUEST, &[0x60 | toggle << 4, 0, 0, 0, 0, 0, 0, 0]);
        rq.resize(MBX as usize, 0);
        let rp = srv.handle(&rq, MBX as usize).remove(0);
        let l = u16::from_le_bytes([rp[0], rp[1]]) as usize;
        let c = rp[8];
        ok &= c >> 5 == 0 && (c >> 4) & 1 == toggle;
        let n = if l - 3 == 7 { 7 - ((c >> 1) & 7) as usize } else { l - 3 };
        data.extend_from_slice(&rp[9..9 + n]);
        if c & 1 != 0 {
            break;
        }
        toggle ^= 1;
    }
    check(ok && data == (0..100u8).collect::<Vec<u8>>(), "reference client (CiA 301) reassembles the segmented upload from the simulator's server");
}

fn case_mailbox_robustness() {
    let mut e = env(short_timeouts(), quick_config());
    let mut seg = sdo_segment(CoeQuirks::default());
    let Some(group) = init_ok(&mut e, &mut seg) else { return };
    let md = e.md;
    let g = &group;
    // delayed reply + receive mailbox held full for a few polls
    seg.devices[0].mbx_reply_delay_polls = 5;
    seg.devices[0].mbx_rx_hold_polls = 3;
    let r = e
        .run(&mut seg, 100_000, async move {
            let sd = g.subdevice(md, 0)?;
            let a = sd.sdo_read::<u16>(0x2001, 0).await?;
            let b = sd.sdo_read::<u32>(0x2002, 0).await?;
            Ok::<_, Error>((a, b))
        })
        .done();
    check(matches!(r, Some(Ok((0xBEEF, 0xDEAD_C0DE)))), &format!("uploads with delayed replies / busy receive mailbox ({:?})", r));
    seg.devices[0].mbx_reply_delay_polls = 0;
    seg.devices[0].mbx_rx_hold_polls = 0;
    // scripted raw replies: wrong index, truncated garbage, wrong mailbox type
    let srv = seg.devices[0].mbx.as_mut().unwrap();
    srv.scripted_replies.push_back(coe::raw_coe(1, coe::COE_SDO_RESPONSE, &[0x4B, 0x99, 0x29, 0, 1, 2, 3, 4]));
    let r = e.run(&mut seg, 100_000, async move { g.subdevice(md, 0)?.sdo_read::<u16>(0x2001, 0).await });
    check(matches!(&r, Outcome::Done(Err(_))), &format!("reply for another index is rejected ({:?})", r));
    let srv = seg.devices[0].mbx.as_mut().unwrap();
    srv.scripted_replies.push_back(vec![0xFF; 48]);
    let r = e.run(&mut seg, 100_000, async move { g.subdevice(md, 0)?.sdo_read::<u16>(0x2001, 0).await });
    match &r {
        Outcome::Done(Err(_)) => {
            check(true, &format!("all-0xFF mailbox content is rejected with an error ({:?})", r));
        }
        other => master(&format!("all-0xFF mailbox content: {:?}", other)),
    }
    let srv = seg.devices[0].mbx.as_mut().unwrap();
    srv.drop_requests = 1;
    let r = e.run(&mut seg, 100_000, async move { g.subdevice(md, 0)?.sdo_read::<u16>(0x2001, 0).await });
    check(format!("{:?}", r).contains("Timeout"), &format!("swallowed request -> mailbox response timeout ({:?})", r));
    // emergency before the real reply
    let srv = seg.devices[0].mbx.as_mut().unwrap();
    srv.emergencies.push_back(Emergency { error_code: 0x8130, error_register: 0x11, data: [1, 2, 3, 4, 5] });
    let r = e.run(&mut seg, 100_000, async move { g.subdevice(md, 0)?.sdo_read::<u16>(0x2001, 0).await });
    match &r {
        Outcome::Done(Err(Error::Mailbox(_))) => info(&format!("emergency telegram before the reply -> {:?}", r)),
        other => master(&format!("emergency telegram queued before the SDO reply: {:?}", other)),
    }
}

// ---------------------------------------------------------------------------------------------
// 4. distributed clocks
// ---------------------------------------------------------------------------------------------
fn dc_dev(name: &str, kind: DcKind, rng: &mut Rng) -> Device {
    let mut d = Device::new(DeviceDesc::simple_io(name, 1, 1), EscInfo::default().with_dc(kind));
    d.dc.clock_offset_ns = rng.range(0, 3_000_000_000) as i64;
    d
}

fn dc_report(e: &mut Env, seg: &mut Segment, group: &Group, label: &str, tol_ns: i64) {
    let md = e.md;
    let r = seg.dc_reference().unwrap();
    let mut rows = Vec::new();
    let mut sums = Vec::new();
    let mut worst = 0i64;
    for (pos, sd) in group.iter(md).enumerate() {
        let di = seg.ring()[pos];
        let d = &seg.devices[di];
        if !d.has_dc() {
            continue;
        }
        let off = d.u64_at(REG_DC_OFFSET);
        let delay = d.u32_at(REG_DC_DELAY);
        let truth = seg.true_delay_from_reference(di).unwrap();
        let recv = d.dc.last_latch[0].unwrap();
        // local receive time + offset must be the same "now" for every device
        let masked = if d.dc.kind == DcKind::Bits64 { recv } else { recv & 0xFFFF_FFFF };
        sums.push(masked.wrapping_add(off));
        worst = worst.max((delay as i64 - truth).abs());
        rows.push(format!("{}: 0x0928={} (master api {}) truth={} diff(0x092C)={}", d.desc.name, delay, sd.propagation_delay(), truth, d.dc.last_diff));
        if delay != sd.propagation_delay() {
            check(false, &format!("{}: register 0x0928 equals propagation_delay()", d.desc.name));
        }
    }
    info(&format!("{} reference={} | {}", label, seg.devices[r].desc.name, rows.join(" | ")));
    check(sums.windows(2).all(|w| w[0] == w[1]), &format!("{}: receive time (0x0918) + offset (0x0920) is the same instant on every DC device", label));
    if worst <= tol_ns {
        check(true, &format!("{}: 0x0928 within {} ns of the true one-way delay (worst {})", label, tol_ns, worst));
    } else {
        master(&format!("{}: propagation delay off by up to {} ns from ground truth (tolerance {})", label, worst, tol_ns));
    }
}

fn case_dc_chain_pure() {
    let mut rng = Rng::new(3);
    let mut e = env(Timeouts::default(), quick_config());
    let devs: Vec<Device> = (0..5).map(|i| dc_dev(&format!("DC{}", i), if i % 2 == 0 { DcKind::Bits64 } else { DcKind::Bits32 }, &mut rng)).collect();
    let mut seg = Segment::chain(devs);
    for i in 0..5 {
        seg.set_link_delay(i, 100 + 150 * i as u32);
    }
    let Some(group) = init_ok(&mut e, &mut seg) else { return };
    dc_report(&mut e, &mut seg, &group, "pure DC chain", 600);
}

fn case_dc_chain() {
    let mut rng = Rng::new(7);
    let mut e = env(Timeouts::default(), quick_config());
    let devs = vec![
        Device::new(DeviceDesc::coupler("NODC0"), EscInfo::default()),
        dc_dev("DC1", DcKind::Bits64, &mut rng),
        dc_dev("DC2", DcKind::Bits32, &mut rng),
        Device::new(DeviceDesc::simple_io("NODC3", 1, 0), EscInfo::default()),
        dc_dev("DC4", DcKind::Bits64, &mut rng),
    ];
    let mut seg = Segment::chain(devs);
    for (i, d) in [0usize, 1, 2, 3, 4].iter().enumerate() {
        seg.set_link_delay(*d, 100 + 150 * i as u32);
    }
    let Some(group) = init_ok(&mut e, &mut seg) else { return };
    check(seg.dc_reference() == Some(1), "ground truth reference clock is DC1");
    let latch: Vec<u32> = seg.devices.iter().map(|d| d.dc.latch_count).collect();
    check(latch == vec![0, 1, 1, 0, 1], &format!("BWR 0x0900 latched exactly the DC devices once {:?}", latch));
    let frmw: Vec<u64> = seg.devices.iter().map(|d| d.dc.sys_time_writes).collect();
    // writes: 1 from the reset BWR on 0x0910 + 50 FRMW for devices that are not the reference
    check(frmw == vec![0, 1, 51, 0, 51], &format!("static sync: 50 FRMW writes reached the non-reference DC devices {:?}", frmw));
    dc_report(&mut e, &mut seg, &group, "chain with non-DC devices in between", 600);
}

fn case_dc_fork() {
    let mut rng = Rng::new(11);
    let mut e = env(Timeouts::default(), quick_config());
    // 0 coupler (fork): port 3 -> 1 -> 2 (line end); port 1 -> 3 -> 4 (line end)
    let devs = vec![
        dc_dev("FORK", DcKind::Bits64, &mut rng),
        dc_dev("A1", DcKind::Bits64, &mut rng),
        dc_dev("A2", DcKind::Bits64, &mut rng),
        dc_dev("B1", DcKind::Bits64, &mut rng),
        dc_dev("B2", DcKind::Bits64, &mut rng),
    ];
    let mut seg = Segment::tree(devs, &[None, Some((0, 3)), Some((1, 1)), Some((0, 1)), Some((3, 1))]);
    seg.set_link_delay(3, 700);
    check(seg.ring() == vec![0, 1, 2, 3, 4], "ring order is depth first 0 -> 3 -> 1 -> 2");
    let Some(group) = init_ok(&mut e, &mut seg) else { return };
    let dl: Vec<u16> = seg.devices.iter().map(|d| d.u16_at(REG_DL_STATUS)).collect();
    info(&format!("DL status per device {:04x?}", dl));
    check(seg.devices[0].open_ports == [true, true, false, true] && seg.devices[2].open_ports == [true, false, false, false], "open ports follow the tree");
    dc_report(&mut e, &mut seg, &group, "fork", 600);
}

fn case_dc_nested_fork() {
    let mut rng = Rng::new(13);
    let mut e = env(Timeouts::default(), quick_config());
    // 0 fork: port 3 -> 1 (fork: port 3 -> 2 (end), port 1 -> 3 (end)); port 1 -> 4 (end)
    let devs: Vec<Device> = ["F0", "F1", "L2", "L3", "L4"].iter().map(|n| dc_dev(n, DcKind::Bits64, &mut rng)).collect();
    let mut seg = Segment::tree(devs, &[None, Some((0, 3)), Some((1, 3)), Some((1, 1)), Some((0, 1))]);
    check(seg.ring() == vec![0, 1, 2, 3, 4] && seg.true_parent(4) == Some(0) && seg.true_parent(3) == Some(1), "ground truth: L3 hangs on F1, L4 hangs on F0");
    let md = e.md;
    match e.run(&mut seg, 300_000, async move { md.init_single_group::<MAXDEV, MAXPDI>(now_ns).await }) {
        Outcome::Done(Ok(group)) => {
            check(true, "init finishes on a nested fork");
            dc_report(&mut e, &mut seg, &group, "nested fork", 600);
        }
        other => master(&format!("init on a nested fork: {:?}", other.done().map(|r| r.map(|_| ())))),
    }
}

// ---------------------------------------------------------------------------------------------
// 5. AL scripts
// ---------------------------------------------------------------------------------------------
fn case_al_scripts() {
    // refusal of SAFE-OP by device 1
    let mut e = env(short_timeouts(), quick_config());
    let mut seg = pd_segment();
    seg.devices[2].al.on_request(AL_SAFEOP, AlBehaviour::Refuse { code: 0x001E });
    let Some(group) = init_ok(&mut e, &mut seg) else { return };
    let md = e.md;
    let t0 = clock::now_us();
    let r = e.run(&mut seg, 400_000, async move { group.into_safe_op(md).await.map(|_| ()) });
    let dt = clock::now_us() - t0;
    check(matches!(&r, Outcome::Done(Err(_))), &format!("refused SAFE-OP -> error after {} us virtual time ({:?})", dt, r));
    check(dt >= 100_000 && dt < 200_000, "error arrives when the 100 ms state transition timeout expires");
    check(seg.devices[2].al.error && seg.devices[2].u16_at(REG_AL_CODE) == 0x001E && seg.devices[2].al_state() == AL_PREOP, "refusing device shows error bit + status code 0x001E, stays in PRE-OP");
    if matches!(&r, Outcome::Done(Err(Error::Timeout(_)))) {
        master("a refused transition (AL status error bit + code set) is only noticed as a timeout; the group wait loop never looks at the error bit");
    }

    // stall during init (INIT -> PRE-OP never happens)
    let mut e = env(short_timeouts(), quick_config());
    let mut seg = pd_segment();
    seg.devices[3].al.on_request(AL_PREOP, AlBehaviour::Stall);
    let t0 = clock::now_us();
    let r = init(&mut e, &mut seg);
    let dt = clock::now_us() - t0;
    check(matches!(&r, Some(Err(Error::Timeout(_)))), &format!("stalled PRE-OP request -> init returns a timeout after {} us ({:?})", dt, r.as_ref().map(|r| r.as_ref().map(|_| ()))));

    // slow accept (needs several polls) still works
    let mut e = env(short_timeouts(), quick_config());
    let mut seg = pd_segment();
    for d in seg.devices.iter_mut() {
        d.al.default = AlBehaviour::Accept { after_polls: 7 };
    }
    let Some(group) = init_ok(&mut e, &mut seg) else { return };
    let Some(group) = into_op(&mut e, &mut seg, group) else { return };
    check(seg.devices.iter().all(|d| d.al_state() == AL_OP), "slow devices (7 polls per transition) reach OP");

    // fallback: device 1 drops from OP to SAFE-OP + error after 3 polls
    let md = e.md;
    let g = &group;
    seg.devices[1].al.on_request(AL_OP, AlBehaviour::AcceptThenFallback { after_polls: 0, fallback_after_polls: 3, fallback_state: AL_SAFEOP, code: 0x001B });
    let r = e
        .run(&mut seg, 10_000, async move {
            g.subdevice(md, 1)?.register_write(REG_AL_CONTROL, 0x0008u16).await?;
            let mut states = Vec::new();
            for _ in 0..5 {
                states.push(g.tx_rx(md).await?.subdevice_states[1]);
            }
            Ok::<_, Error>(states)
        })
        .done();
    check(
        matches!(&r, Some(Ok(s)) if s[0] == SubDeviceState::Op && *s.last().unwrap() == SubDeviceState::SafeOp),
        &format!("fallback script: tx_rx state list shows OP then SAFE-OP ({:?})", r),
    );

    // illegal transition is refused by the strict checks: INIT -> OP
    let mut e = env(short_timeouts(), quick_config());
    let mut seg = Segment::chain(vec![mk_simple(0, false)]);
    let md = e.md;
    let r = e
        .run(&mut seg, 10_000, async move {
            ethercrab::Command::apwr(0, REG_AL_CONTROL).send(md, 0x0008u16).await?;
            let st = ethercrab::Command::aprd(0, REG_AL_STATUS).receive::<u16>(md).await?;
            let code = ethercrab::Command::aprd(0, REG_AL_CODE).receive::<u16>(md).await?;
            Ok::<_, Error>((st, code))
        })
        .done();
    check(matches!(r, Some(Ok((0x11, 0x0011)))), &format!("INIT -> OP refused with 0x0011 ({:x?})", r));
}

// ---------------------------------------------------------------------------------------------
// 6. SII write path, faults, raw commands
// ---------------------------------------------------------------------------------------------
fn case_sii_write() {
    let mut e = env(Timeouts::default(), quick_config());
    let mut seg = Segment::chain(vec![mk_simple(0, false), mk_simple(1, true)]);
    seg.devices[1].sii.busy_polls = 3;
    let Some(mut group) = init_ok(&mut e, &mut seg) else { return };
    let md = e.md;
    seg.devices[1].sii.write_cmd_errors = 2;
    let g = &mut group;
    let r = e
        .run(&mut seg, 100_000, async move {
            let mut sd = g.iter_mut(md).nth(1).unwrap();
            sd.set_alias_address(0x4321).await?;
            let sd = g.subdevice(md, 1)?;
            let back = sd.read_alias_address_from_eeprom(md).await?;
            let word7 = sd.eeprom_read::<u16>(md, 7).await?;
            Ok::<_, Error>((back, word7))
        })
        .done();
    let ee = &seg.devices[1].eeprom;
    check(
        matches!(r, Some(Ok((0x4321, _)))) && ee[8..10] == [0x21, 0x43] && sii_crc(&ee[0..14]) == ee[14],
        &format!("set_alias_address with 2 command errors + busy polls: EEPROM word 4 and checksum updated ({:x?}, writes {:x?})", r, seg.devices[1].sii.writes),
    );
    check(seg.devices[1].u16_at(REG_ALIAS) == 0x0101, "register 0x0012 keeps the old alias until reload/power cycle");
    seg.devices[1].power_on();
    check(seg.devices[1].u16_at(REG_ALIAS) == 0x4321, "after power cycle the alias register holds the new value");
    // read beyond the image returns 0xFF
    let g = &group;
    seg.devices[0].set_station_address(0x1000);
    let r = e.run(&mut seg, 10_000, async move { g.subdevice(md, 0)?.eeprom_read::<u32>(md, 0x7000).await }).done();
    check(matches!(r, Some(Ok(0xFFFF_FFFF))), &format!("read beyond the image returns 0xFF ({:x?})", r));
    // more command errors than the master retries (20)
    seg.devices[0].sii.write_cmd_errors = 25;
    let r = e.run(&mut seg, 100_000, async move { g.subdevice(md, 0)?.eeprom_write_dangerously(md, 0x30, 0xAA55u16).await }).done();
    let stored = seg.devices[0].eeprom[0x60..0x62] == [0x55, 0xAA];
    if matches!(r, Some(Ok(()))) && !stored {
        master(&format!("eeprom write returns Ok(()) although the device answered command error to all {} attempts; word not stored", 25 - seg.devices[0].sii.write_cmd_errors));
    } else {
        info(&format!("25 command errors: result {:?}, stored {}", r, stored));
    }
}

fn case_faults() {
    let mut e = env(Timeouts::default(), quick_config());
    let mut seg = Segment::chain((0..3).map(|i| mk_simple(i, false)).collect());
    let Some(group) = init_ok(&mut e, &mut seg) else { return };
    let md = e.md;
    let _g = &group;
    // lost frame without retries -> timeout after 30 ms
    let n = seg.frame_no;
    seg.faults.push(Fault::LoseFrame { frame: n, after_processing: true });
    let t0 = clock::now_us();
    let r = e.run(&mut seg, 100, async move { ethercrab::Command::brd(0x0000).with_wkc(3).receive::<u8>(md).await }).done();
    check(matches!(r, Some(Err(Error::Timeout(_)))) && clock::now_us() - t0 >= 30_000, &format!("lost frame -> PDU timeout ({:?})", r));
    // the same with two retries configured: the resend gets through
    {
        let mut e2 = env(Timeouts::default(), MainDeviceConfig { retry_behaviour: RetryBehaviour::Count(2), ..quick_config() });
        let md2 = e2.md;
        let n = seg.frame_no;
        seg.faults.push(Fault::LoseFrame { frame: n, after_processing: false });
        let r = e2.run(&mut seg, 100, async move { ethercrab::Command::brd(0x0000).with_wkc(3).receive::<u8>(md2).await }).done();
        check(matches!(r, Some(Ok(0x11))) && e2.log.len() == 2 && e2.log[0].reply.is_none(), &format!("lost frame with RetryBehaviour::Count(2): resent once, then answered ({:?}, {} frames)", r, e2.log.len()));
    }
    // WKC fault
    let n = seg.frame_no;
    seg.faults.push(Fault::Wkc { frame: n, datagram: 0, delta: -1 });
    let r = e.run(&mut seg, 100, async move { ethercrab::Command::fprd(0x1001, 0x0010).receive::<u16>(md).await }).done();
    check(matches!(r, Some(Err(Error::WorkingCounter { expected: 1, received: 0 }))), &format!("WKC -1 -> WorkingCounter error ({:?})", r));
    // absent device: not counted, addresses shift
    seg.devices[1].powered = false;
    let r = e.run(&mut seg, 100, async move { ethercrab::Command::brd(0x0000).with_wkc(2).receive::<u8>(md).await }).done();
    check(matches!(r, Some(Ok(0x11))), &format!("unpowered device does not count in BRD ({:?})", r));
    let r = e.run(&mut seg, 100, async move { ethercrab::Command::aprd(1, 0x0010).receive::<u16>(md).await }).done();
    check(matches!(r, Some(Ok(0x1002))), &format!("auto-increment position 1 is now the third device ({:x?})", r));
    seg.devices[1].powered = true;
    // stale duplicate instead of the next reply
    let n = seg.frame_no;
    seg.faults.push(Fault::DuplicateReplaceNext { frame: n });
    let r1 = e.run(&mut seg, 100, async move { ethercrab::Command::brd(0x0000).with_wkc(3).receive::<u8>(md).await }).done();
    let r2 = e.run(&mut seg, 100, async move { ethercrab::Command::brd(0x0000).with_wkc(3).receive::<u8>(md).await });
    let rx: Vec<String> = e.log.iter().filter_map(|x| x.rx_result.clone()).collect();
    check(matches!(r1, Some(Ok(0x11))), "frame before the duplicate is fine");
    info(&format!("stale duplicate delivered instead of the next reply: master result {:?}, PduRx said {:?}", r2, rx));
    // duplicate copy kept for the caller
    let n = seg.frame_no;
    seg.faults.push(Fault::DuplicateExtra { frame: n });
    let _ = e.run(&mut seg, 100, async move { ethercrab::Command::brd(0x0000).with_wkc(3).receive::<u8>(md).await }).done();
    check(seg.extra_replies.len() == 1 && seg.extra_replies[0] == e.log[0].reply.clone().unwrap(), "DuplicateExtra leaves a copy of the reply in extra_replies");
    // pre/post hooks
    let at = seg.frame_no + 1;
    seg.pre_exchange = Some(Box::new(move |s: &mut Segment, n| {
        if n == at {
            s.devices[2].mem[0x0F00] = 0x99;
        }
    }));
    seg.post_exchange = Some(Box::new(move |_s: &mut Segment, n, reply: &mut Option<Vec<u8>>| {
        if n == at + 1 {
            *reply = None;
        }
    }));
    let r = e
        .run(&mut seg, 100, async move {
            let a = ethercrab::Command::fprd(0x1002, 0x0F00).receive::<u8>(md).await?;
            let b = ethercrab::Command::fprd(0x1002, 0x0F00).receive::<u8>(md).await?;
            let c = ethercrab::Command::fprd(0x1002, 0x0F00).receive::<u8>(md).await;
            Ok::<_, Error>((a, b, c))
        })
        .done();
    check(matches!(r, Some(Ok((0, 0x99, Err(Error::Timeout(_)))))), &format!("pre_exchange hook changes device memory mid-run, post_exchange hook drops a reply ({:x?})", r));
    seg.pre_exchange = None;
    seg.post_exchange = None;
    // ARMW / FRMW / APRW / BRW semantics on raw frames via the log
    let mut raw = vec![0u8; 14];
    raw[0..6].copy_from_slice(&[0xFF; 6]);
    raw[6..12].copy_from_slice(&[0x10; 6]);
    raw[12] = 0x88;
    raw[13] = 0xA4;
    let dg = |cmd: u8, adp: u16, ado: u16, data: &[u8], more: bool| {
        let mut v = vec![cmd, 0x55];
        v.extend_from_slice(&adp.to_le_bytes());
        v.extend_from_slice(&ado.to_le_bytes());
        v.extend_from_slice(&((data.len() as u16) | if more { 0x8000 } else { 0 }).to_le_bytes());
        v.extend_from_slice(&[0, 0]);
        v.extend_from_slice(data);
        v.extend_from_slice(&[0, 0]);
        v
    };
    let mut body = Vec::new();
    body.extend(dg(CMD_ARMW, 0xFFFF, 0x0F80, &[0; 2], true)); // read at position 1, write elsewhere after it
    body.extend(dg(CMD_FPRW, 0x1000, 0x0F90, &[0xAA, 0xBB], true));
    body.extend(dg(CMD_BRW, 0, 0x0F90, &[0x01, 0x00], true));
    body.extend(dg(CMD_NOP, 0, 0, &[9, 9], false));
    raw.extend_from_slice(&((body.len() as u16) | 0x1000).to_le_bytes());
    raw.extend(body);
    seg.devices[1].mem[0x0F80] = 0x77;
    let n = seg.frame_no;
    let reply = vharness::net::Wire::exchange(&mut seg, &raw).unwrap();
    let l = seg.frame_log(n).into_iter().cloned().collect::<Vec<_>>();
    check(reply[6] == 0x12 && reply.len() == raw.len(), "reply has the locally-administered bit set in the source MAC");
    check(
        l[0].after == [0x77, 0] && l[0].wkc == 3 && l[0].adp_after == 2 && seg.devices[2].mem[0x0F80] == 0x77 && seg.devices[0].mem[0x0F80] == 0,
        "ARMW: read at the addressed device (position 1), written at all others (master's data before it, read data after it), WKC 3",
    );
    check(l[1].after == [0, 0] && l[1].wkc == 3, "FPRW: old memory returned, WKC +1 read +2 write");
    // devices are processed one after the other: device 0 executes FPRW (stores AA BB) and then BRW
    // (ORs AA BB into the frame, stores the incoming 01 00); later devices store what arrives.
    check(
        l[2].after == [0xAB, 0xBB] && l[2].wkc == 9 && seg.devices[0].mem[0x0F90..0x0F92] == [0x01, 0x00] && seg.devices[1].mem[0x0F90..0x0F92] == [0xAB, 0xBB],
        &format!("BRW: OR of the devices' old data, each device stores the data as it arrives, WKC 3 per device ({:02x?} wkc {})", l[2].after, l[2].wkc),
    );
    check(l[3].after == [9, 9] && l[3].wkc == 0, "NOP untouched");
}

fn main() {
    let cases: Vec<(&str, Box<dyn FnOnce() + Send>)> = vec![
        ("eeprom-layout", Box::new(case_eeprom_layout)),
        ("init-0", Box::new(|| case_init(0, false, false))),
        ("init-1", Box::new(|| case_init(1, false, false))),
        ("init-1-sii8", Box::new(|| case_init(1, true, false))),
        ("init-3-dup", Box::new(|| case_init(3, false, true))),
        ("init-8-mixed-sii", Box::new(|| case_init(8, true, true))),
        ("process-data", Box::new(case_process_data)),
        ("sdo-basic", Box::new(case_sdo_basic)),
        ("sdo-segmented", Box::new(case_sdo_segmented)),
        ("mailbox-robustness", Box::new(case_mailbox_robustness)),
        ("dc-chain-pure", Box::new(case_dc_chain_pure)),
        ("dc-chain-mixed", Box::new(case_dc_chain)),
        ("dc-fork", Box::new(case_dc_fork)),
        ("dc-nested-fork", Box::new(case_dc_nested_fork)),
        ("al-scripts", Box::new(case_al_scripts)),
        ("sii-write", Box::new(case_sii_write)),
        ("faults", Box::new(case_faults)),
    ];
    // panics of the master are caught per run and reported; keep the default hook's noise down
    std::panic::set_hook(Box::new(|p| {
        let loc = p.location().map(|l| format!("{}:{}", l.file(), l.line())).unwrap_or_default();
        println!("   (panic at {})", loc);
    }));
    let filter: Option<String> = std::env::args().nth(1);
    let mut failed = Vec::new();
    for (name, f) in cases {
        if let Some(fl) = &filter {
            if !name.contains(fl.as_str()) {
                continue;
            }
        }
        let name_s = name.to_string();
        let h = std::thread::Builder::new()
            .stack_size(512 << 20)
            .spawn(move || {
                CASE.with(|c| *c.borrow_mut() = name_s.clone());
                f();
                FAILS.with(|f| f.borrow().clone())
            })
            .unwrap();
        match h.join() {
            Ok(fails) => failed.extend(fails),
            Err(_) => {
                println!("FAIL {}: panicked", name);
                failed.push(format!("{}: panicked", name));
            }
        }
    }
    if failed.is_empty() {
        println!("ALL PASS");
    } else {
        println!("{} FAILED:", failed.len());
        for f in &failed {
            println!("  {}", f);
        }
        std::process::exit(1);
    }
}
