//! C12/C13/C14 harness: the EEPROM range reader/writer and the SubDeviceEeprom queries of the real
//! crate, driven through the verification hooks with an in-memory provider covering the whole
//! word-addressable space (stored prefix + fill byte + sparse patches).
//!
//! modes: range | raw (bodies of eeprom_read_raw / eeprom_read / eeprom_write_dangerously) | wf (well-formed generated devices) | adv (adversarial images) | alias
use ethercrab::error::Error;
use ethercrab::verif::{self, EepromDataProvider};
use std::cell::{Cell, RefCell};
use std::future::Future;
use std::pin::pin;
use std::rc::Rc;
use std::task::{Context, Poll, RawWaker, RawWakerVTable, Waker};
use vharness::rng::Rng;

const ACCESS_LIMIT: u64 = 400_000;

#[derive(Clone)]
struct Mem {
    prefix: Rc<Vec<u8>>,
    fill: u8,
    cs: usize,
    overlay: Rc<RefCell<Vec<(u32, u8)>>>,
    accesses: Rc<Cell<u64>>,
    runaway: Rc<Cell<bool>>,
}

impl Mem {
    fn byte(&self, a: u32) -> u8 {
        for (k, v) in self.overlay.borrow().iter().rev() {
            if *k == a { return *v; }
        }
        self.prefix.get(a as usize).copied().unwrap_or(self.fill)
    }
}

impl EepromDataProvider for Mem {
    async fn read_chunk(&mut self, start_word: u16) -> Result<impl core::ops::Deref<Target = [u8]>, Error> {
        self.accesses.set(self.accesses.get() + 1);
        if self.accesses.get() > ACCESS_LIMIT {
            self.runaway.set(true);
            return Err(Error::Internal);
        }
        let base = u32::from(start_word) * 2;
        Ok((0..self.cs as u32).map(|i| self.byte(base + i)).collect::<Vec<u8>>())
    }
    async fn write_word(&mut self, start_word: u16, data: [u8; 2]) -> Result<(), Error> {
        self.accesses.set(self.accesses.get() + 1);
        let base = u32::from(start_word) * 2;
        self.overlay.borrow_mut().push((base, data[0]));
        self.overlay.borrow_mut().push((base + 1, data[1]));
        Ok(())
    }
    async fn clear_errors(&self) -> Result<(), Error> { Ok(()) }
}

fn noop_waker() -> Waker {
    fn clone(_: *const ()) -> RawWaker { RawWaker::new(std::ptr::null(), &VT) }
    fn noop(_: *const ()) {}
    static VT: RawWakerVTable = RawWakerVTable::new(clone, noop, noop, noop);
    unsafe { Waker::from_raw(RawWaker::new(std::ptr::null(), &VT)) }
}

fn block_on<F: Future>(f: F) -> Option<F::Output> {
    let w = noop_waker();
    let mut cx = Context::from_waker(&w);
    let mut f = pin!(f);
    for _ in 0..10 {
        if let Poll::Ready(v) = f.as_mut().poll(&mut cx) { return Some(v); }
    }
    None
}

fn hex(b: &[u8]) -> String { b.iter().map(|x| format!("{:02x}", x)).collect() }

struct Image { prefix: Vec<u8>, fill: u8, patches: Vec<(u32, u8)> }

impl Image {
    fn mem(&self, cs: usize) -> Mem {
        Mem { prefix: Rc::new(self.prefix.clone()), fill: self.fill, cs, overlay: Rc::new(RefCell::new(self.patches.clone())),
              accesses: Rc::new(Cell::new(0)), runaway: Rc::new(Cell::new(false)) }
    }
    fn json(&self) -> String {
        format!("\"img\":\"{}\",\"fill\":{},\"patches\":[{}]", hex(&self.prefix), self.fill,
            self.patches.iter().map(|(a, v)| format!("[{},{}]", a, v)).collect::<Vec<_>>().join(","))
    }
}

fn outcome<T>(r: std::thread::Result<Option<Result<T, Error>>>, m: &Mem) -> String {
    match r {
        Err(_) => "\"res\":\"PANIC\"".into(),
        Ok(None) => "\"res\":\"PENDING\"".into(),
        Ok(Some(_)) if m.runaway.get() => "\"res\":\"HANG\"".into(),
        Ok(Some(Ok(_))) => "\"res\":\"Ok\"".into(),
        Ok(Some(Err(e))) => format!("\"res\":\"Err\",\"err\":\"{:?}\"", e),
    }
}

fn run_query(img: &Image, cs: usize, q: u8, arg: u16) -> String {
    let m = img.mem(cs);
    let n0 = m.overlay.borrow().len();
    let mut out: Vec<i64> = Vec::new();
    let r = std::panic::catch_unwind(std::panic::AssertUnwindSafe(|| block_on(verif::sii_query(m.clone(), q, arg, &mut |v| out.push(v)))));
    let writes: Vec<String> = m.overlay.borrow()[n0..].iter().map(|(a, v)| format!("[{},{}]", a, v)).collect();
    format!("{{\"q\":{},\"arg\":{},{},\"out\":{:?},\"writes\":[{}],\"accesses\":{}}}", q, arg, outcome(r, &m), out, writes.join(","), m.accesses.get())
}

// ---------------- range cases ----------------
fn range_case(rng: &mut Rng, release: bool) -> String {
    let plen = match rng.below(4) { 0 => rng.below(40) as usize, 1 => rng.range(40, 300) as usize, _ => rng.range(8, 120) as usize };
    let img = Image { prefix: rng.bytes(plen), fill: rng.byte(), patches: if rng.chance(1, 4) {
        (0..rng.range(1, 6)).map(|_| ((rng.edgy(17) as u32) & 0x1ffff, rng.byte())).collect() } else { vec![] } };
    let cs = if rng.chance(1, 2) { 4 } else { 8 };
    let start: u16 = match rng.below(10) { 0 => rng.edgy(16) as u16, 1 => 0x7ff0 + rng.below(0x20) as u16, 2 => 0xfff0 + rng.below(16) as u16, _ => rng.below((plen as u64 / 2).max(1) + 2) as u16 };
    let len: u16 = match rng.below(10) { 0 => rng.edgy(16) as u16, 1 => 0x8000u16.wrapping_sub(start).wrapping_add(rng.below(3) as u16).wrapping_sub(1), 2 => 0, _ => rng.below(40) as u16 };
    let raw = rng.chance(1, 3);
    let raw_n = match rng.below(6) { 0 => rng.range(0, 600) as u16, 1 => 1, _ => rng.range(0, 40) as u16 };
    let (start, len) = if raw { (if rng.chance(1, 8) { 0xffffu16 - rng.below(20) as u16 } else { rng.below((plen as u64 / 2) + 4) as u16 }, raw_n.div_ceil(2)) } else { (start, len) };
    let nops = if raw { 1 } else { rng.range(1, 7) as usize };
    let ops: Vec<(u8, u16)> = if raw { vec![(rng.below(2) as u8, raw_n)] } else { (0..nops).map(|_| {
        let kind = *rng.pick(&[0u8, 0, 1, 1, 1, 2, 2, 3, 4, 5]);
        let n = match kind {
            3 => match rng.below(6) { 0 => rng.edgy(16) as u16, _ => rng.below(30) as u16 },
            4 | 5 => match rng.below(8) { 0 => rng.below(70) as u16, _ => rng.below(12) as u16 },
            _ => match rng.below(8) { 0 => rng.range(30, 600) as u16, 1 => 0, _ => rng.below(30) as u16 },
        };
        (kind, n)
    }).collect() };
    let m = img.mem(cs);
    let n0 = m.overlay.borrow().len();
    let mut out: Vec<i64> = Vec::new();
    let r = std::panic::catch_unwind(std::panic::AssertUnwindSafe(|| block_on(verif::sii_range(m.clone(), start, len, &ops, &mut |v| out.push(v)))));
    let writes: Vec<String> = m.overlay.borrow()[n0..].iter().map(|(a, v)| format!("[{},{}]", a, v)).collect();
    format!("{{\"kind\":\"range\",\"raw\":{raw},\"release\":{},\"cs\":{},{},\"start\":{},\"len\":{},\"ops\":[{}],{},\"out\":{:?},\"writes\":[{}]}}",
        release, cs, img.json(), start, len, ops.iter().map(|(k, n)| format!("[{},{}]", k, n)).collect::<Vec<_>>().join(","),
        outcome(r, &m), out, writes.join(","))
}

// ---------------- the public raw read / typed read / typed write bodies ----------------
fn raw_case(rng: &mut Rng, release: bool) -> String {
    let plen = rng.range(8, 200) as usize;
    let img = Image { prefix: rng.bytes(plen), fill: rng.byte(), patches: if rng.chance(1, 5) { vec![((rng.edgy(17) as u32) & 0x1ffff, rng.byte())] } else { vec![] } };
    let cs = if rng.chance(1, 2) { 4 } else { 8 };
    let word: u16 = match rng.below(10) { 0 => rng.edgy(16) as u16, 1 => 0xffffu16 - rng.below(12) as u16, 2 => 0x7ffau16 + rng.below(12) as u16, _ => rng.below(plen as u64 / 2 + 4) as u16 };
    let n: u16 = match rng.below(8) { 0 => rng.range(40, 600) as u16, 1 => 0, 2 => 1, _ => rng.range(1, 40) as u16 };
    let (exact, write) = match rng.below(3) { 0 => (false, false), 1 => (true, false), _ => (false, true) };
    let n = if write { n.min(64) } else { n };
    let m = img.mem(cs);
    let n0 = m.overlay.borrow().len();
    let mut out: Vec<i64> = Vec::new();
    let r = std::panic::catch_unwind(std::panic::AssertUnwindSafe(|| block_on(verif::sii_raw(m.clone(), word, n, exact, write, &mut |v| out.push(v)))));
    let writes: Vec<String> = m.overlay.borrow()[n0..].iter().map(|(a, v)| format!("[{},{}]", a, v)).collect();
    format!("{{\"kind\":\"raw\",\"release\":{},\"cs\":{},{},\"word\":{},\"n\":{},\"exact\":{},\"write\":{},{},\"out\":{:?},\"writes\":[{}]}}",
        release, cs, img.json(), word, n, exact, write, outcome(r, &m), out, writes.join(","))
}

// ---------------- well-formed device descriptions ----------------
fn crc8(data: &[u8]) -> u8 {
    let mut c: u8 = 0xff;
    for b in data {
        c ^= *b;
        for _ in 0..8 { c = if c & 0x80 != 0 { (c << 1) ^ 0x07 } else { c << 1 }; }
    }
    c
}

struct Desc { json: String, img: Image, nstrings: usize }

fn put16(v: &mut Vec<u8>, at: usize, x: u16) { v[at] = x as u8; v[at + 1] = (x >> 8) as u8; }

fn gen_device(rng: &mut Rng) -> Desc {
    let mut hdr = rng.bytes(128);
    let alias = rng.edgy(16) as u16;
    put16(&mut hdr, 8, alias);
    let cs = crc8(&hdr[0..14]);
    put16(&mut hdr, 14, cs as u16);
    let ident: Vec<u32> = (0..4).map(|_| rng.edgy(32) as u32).collect();
    for (i, x) in ident.iter().enumerate() { hdr[16 + 4 * i..20 + 4 * i].copy_from_slice(&x.to_le_bytes()); }
    let mbx: Vec<u16> = (0..4).map(|_| rng.edgy(16) as u16).collect();
    for (i, x) in mbx.iter().enumerate() { put16(&mut hdr, 0x30 + 2 * i, *x); }
    let protos = (rng.byte() & 0x3f) as u8;
    hdr[0x38] = protos;
    let kbit: u32 = 1 << rng.below(13);     // 1 Kbit .. 4 Mbit
    let kbit = if rng.chance(1, 6) { rng.range(1, 4096) as u32 } else { kbit };
    put16(&mut hdr, 0x7c, (kbit - 1) as u16);
    put16(&mut hdr, 0x7e, 1);
    // strings
    let nstr = match rng.below(6) { 0 => 0, 1 => rng.range(1, 50) as usize, _ => rng.range(1, 8) as usize };
    let strings: Vec<Vec<u8>> = (0..nstr).map(|_| {
        let len = match rng.below(10) { 0 => 0, 1 => rng.range(60, 70) as usize, 2 => rng.range(120, 255) as usize, _ => rng.range(1, 30) as usize };
        (0..len).map(|_| match rng.below(20) { 0 => 0u8, 1 => 0x80 | rng.byte(), _ => 0x20 + (rng.byte() % 0x5f) }).collect()
    }).collect();
    let pick_idx = |rng: &mut Rng| -> u8 { match rng.below(8) { 0 => 0, 1 => (nstr + 1) as u8, 2 => (nstr as u8).wrapping_add(2), _ => if nstr == 0 { 0 } else { rng.range(1, nstr as u64) as u8 } } };
    let has_general = !rng.chance(1, 10);
    let g_idx: Vec<u8> = (0..4).map(|_| pick_idx(rng)).collect();
    let coe = rng.byte() & 0x3f;
    let foe = *rng.pick(&[0u8, 1, 0xff]);
    let eoe = *rng.pick(&[0u8, 1, 0xff, 2]);
    let flags = rng.byte() & 0x1f;
    let ebus = rng.edgy(16) as u16;
    let ports: Vec<u8> = (0..4).map(|_| rng.below(5) as u8).collect();
    let phys = rng.edgy(16) as u16;
    let mut cats: Vec<(u16, Vec<u8>)> = Vec::new();
    if nstr > 0 || rng.chance(1, 3) {
        let mut b = vec![nstr as u8];
        for s in &strings { b.push(s.len() as u8); b.extend_from_slice(s); }
        cats.push((10, b));
    }
    if has_general {
        let mut b = vec![g_idx[0], g_idx[1], g_idx[2], g_idx[3], rng.byte(), coe, foe, eoe, rng.byte(), rng.byte(), rng.byte(), flags];
        b.extend_from_slice(&ebus.to_le_bytes());
        b.push(ports[0] | (ports[1] << 4)); b.push(ports[2] | (ports[3] << 4));
        b.extend_from_slice(&phys.to_le_bytes());
        b.extend_from_slice(&rng.bytes(14));
        cats.push((30, b));
    }
    let nfmmu = match rng.below(4) { 0 => 0, 1 => rng.range(1, 16) as usize, _ => rng.range(1, 4) as usize };
    let fmmus: Vec<u8> = (0..nfmmu).map(|_| *rng.pick(&[0u8, 1, 2, 3, 0xff, 1, 2])).collect();
    if nfmmu > 0 || rng.chance(1, 4) { cats.push((40, fmmus.clone())); }
    let nsm = match rng.below(4) { 0 => 0, 1 => rng.range(1, 8) as usize, _ => rng.range(1, 4) as usize };
    let mut sms = Vec::new();
    let mut smb = Vec::new();
    for _ in 0..nsm {
        let (st, ln) = (rng.edgy(16) as u16, rng.edgy(16) as u16);
        let om = *rng.pick(&[0u8, 2]); let dir = rng.below(2) as u8;
        let ev = rng.byte() & 7;
        let ctl = om | (dir << 2) | (ev << 4);
        let en = rng.byte() & 0x0f; let ty = rng.below(5) as u8;
        smb.extend_from_slice(&st.to_le_bytes()); smb.extend_from_slice(&ln.to_le_bytes());
        smb.push(ctl); smb.push(rng.byte()); smb.push(en); smb.push(ty);
        sms.push(format!("[{},{},{},{},{},{},{},{},{}]", st, ln, om, dir, ev & 1, (ev >> 1) & 1, (ev >> 2) & 1, en, ty));
    }
    if nsm > 0 || rng.chance(1, 4) { cats.push((41, smb)); }
    let nfx = match rng.below(4) { 0 => 0, 1 => rng.range(1, 16) as usize, _ => rng.range(1, 4) as usize };
    let mut fxb = Vec::new(); let mut fx = Vec::new();
    for _ in 0..nfx { let sm = rng.byte(); fxb.push(rng.byte()); fxb.push(sm); fxb.push(rng.byte()); fx.push(sm); }
    if nfx > 0 { cats.push((42, fxb)); }
    let mut pdo_json = Vec::new();
    for cat in [50u16, 51] {
        let np = match rng.below(8) { 0 => 0, 1 => rng.range(9, 64) as usize, _ => rng.range(1, 6) as usize };
        let mut b = Vec::new(); let mut pj = Vec::new();
        for _ in 0..np {
            let idx = rng.edgy(16) as u16;
            let ne = match rng.below(12) { 0 => 0, 1 => rng.range(20, 255) as usize, _ => rng.range(1, 8) as usize };
            let ne = if np > 16 { ne.min(6) } else { ne };
            let sm = rng.byte();
            b.extend_from_slice(&idx.to_le_bytes()); b.push(ne as u8); b.push(sm); b.extend_from_slice(&rng.bytes(4));
            let mut bits = 0u32;
            for _ in 0..ne {
                let bl = match rng.below(6) { 0 => 255u8, 1 => 0, 2 => 1, _ => *rng.pick(&[8u8, 16, 32, 64]) };
                b.extend_from_slice(&rng.bytes(5)); b.push(bl); b.extend_from_slice(&rng.bytes(2));
                bits += bl as u32;
            }
            pj.push(format!("[{},{},{},{}]", idx, ne, sm, bits));
        }
        if np > 0 || rng.chance(1, 4) { cats.push((cat, b)); }
        pdo_json.push(format!("[{}]", pj.join(",")));
    }
    // extra categories the parser must step over
    for _ in 0..rng.below(4) {
        let ty = match rng.below(4) { 0 => rng.range(1, 9) as u16, 1 => 20, 2 => 60, _ => rng.range(0x1000, 0xfffe) as u16 };
        let n = 2 * rng.below(12) as usize;
        cats.push((ty, rng.bytes(n)));
    }
    // random order
    for i in (1..cats.len()).rev() { let j = rng.below(i as u64 + 1) as usize; cats.swap(i, j); }
    let mut image = hdr;
    let mut order = Vec::new();
    for (ty, mut b) in cats {
        if b.len() % 2 == 1 { b.push(*rng.pick(&[0u8, 0xff, 0])); }
        order.push(format!("[{},{}]", ty, b.len() / 2));
        image.extend_from_slice(&ty.to_le_bytes());
        image.extend_from_slice(&((b.len() / 2) as u16).to_le_bytes());
        image.extend_from_slice(&b);
    }
    image.extend_from_slice(&[0xff, 0xff]);
    if rng.chance(1, 2) { image.extend_from_slice(&rng.bytes(6)); }
    let json = format!("\"alias\":{},\"ident\":{:?},\"mbx\":{:?},\"protos\":{},\"kbit\":{},\"strings\":[{}],\"general\":{},\"fmmus\":{:?},\"sms\":[{}],\"fmmu_ex\":{:?},\"txpdos\":{},\"rxpdos\":{},\"order\":[{}]",
        alias, ident, mbx, protos, kbit, strings.iter().map(|s| format!("\"{}\"", hex(s))).collect::<Vec<_>>().join(","),
        if has_general { format!("[{},{},{},{},{},{},{},{},{},{:?},{}]", g_idx[0], g_idx[1], g_idx[2], g_idx[3], coe, (foe > 0) as u8, (eoe > 0) as u8, flags, ebus as i16, ports, phys) } else { "null".into() },
        fmmus, sms.join(","), fx, pdo_json[0], pdo_json[1], order.join(","));
    Desc { json, img: Image { prefix: image, fill: *rng.pick(&[0xffu8, 0xff, 0x00, 0x55]), patches: vec![] }, nstrings: nstr }
}

fn all_queries(rng: &mut Rng, img: &Image, cs: usize, nstrings: usize, with_alias: bool) -> Vec<String> {
    let mut runs = Vec::new();
    for q in 0u8..=12 {
        if q == 11 {
            let mut idxs: Vec<u16> = vec![0, 1, nstrings as u16, nstrings as u16 + 1, nstrings as u16 + 2, 255];
            if nstrings > 2 { idxs.push(rng.range(1, nstrings as u64) as u16); }
            idxs.sort(); idxs.dedup();
            for i in idxs { if i <= 255 { runs.push(run_query(img, cs, 11, i)); } }
        } else {
            runs.push(run_query(img, cs, q, 0));
        }
    }
    if with_alias { runs.push(run_query(img, cs, 13, rng.edgy(16) as u16)); }
    runs
}

fn wf_case(rng: &mut Rng, release: bool) -> String {
    let d = gen_device(rng);
    let cs = if rng.chance(1, 2) { 4 } else { 8 };
    let runs = all_queries(rng, &d.img, cs, d.nstrings, true);
    format!("{{\"kind\":\"wf\",\"release\":{},\"cs\":{},{},\"desc\":{{{}}},\"runs\":[{}]}}", release, cs, d.img.json(), d.json, runs.join(","))
}

// ---------------- adversarial images ----------------
fn adv_case(rng: &mut Rng, release: bool) -> String {
    let cs = if rng.chance(1, 2) { 4 } else { 8 };
    let d = gen_device(rng);
    let mut img = d.img;
    let mut nstr = d.nstrings;
    let what = rng.below(14);
    let plen = img.prefix.len();
    // positions of category headers in the well-formed image
    let mut heads = Vec::new();
    let mut pos = 128usize;
    while pos + 4 <= plen {
        let ty = u16::from_le_bytes([img.prefix[pos], img.prefix[pos + 1]]);
        let ln = u16::from_le_bytes([img.prefix[pos + 2], img.prefix[pos + 3]]) as usize;
        heads.push(pos);
        if ty == 0xffff { break; }
        pos += 4 + 2 * ln;
    }
    let h = *rng.pick(&heads);
    match what {
        0 => { img.prefix = vec![]; img.fill = 0; }
        1 => { img.prefix = vec![]; img.fill = 0xff; }
        2 => { img.prefix.truncate(rng.range(0, plen as u64) as usize); img.fill = rng.byte(); }
        3 => { put16(&mut img.prefix, h + 2, *rng.pick(&[0xffffu16, 0xfffe, 0xfffd, 0x8000, 0x7fff])); }
        4 => { // wrap to self or to an earlier header
            let wa = (h / 2 + 2) as u16;
            let target = (*rng.pick(&heads) / 2) as u16;
            put16(&mut img.prefix, h + 2, target.wrapping_sub(wa));
        }
        5 => { put16(&mut img.prefix, 0x7c, *rng.pick(&[511u16, 510, 512, 0xffff, 0x8000])); }
        6 => { // no end marker: endless chain of small unknown categories in the fill
            let l = img.prefix.len(); img.prefix.truncate(l.saturating_sub(2).max(128)); img.fill = *rng.pick(&[0x01u8, 0x02, 0x10, 0x80, 0x7f]);
        }
        7 => { for _ in 0..rng.range(1, 12) { let i = rng.range(128, plen as u64 - 1) as usize; img.prefix[i] = rng.byte(); } }
        8 => { for i in 128..plen { if rng.chance(1, 6) { img.prefix[i] = *rng.pick(&[0xffu8, 0, 0x80, 0x7f]); } } }
        9 => { // a category placed high in the address space through patches
            let wa: u32 = *rng.pick(&[0x7ff0u32, 0x7ffe, 0x8000, 0x9000, 0xfff0, 0xfffa, 0xfffc]);
            let ty = *rng.pick(&[10u16, 30, 41, 50, 40]);
            put16(&mut img.prefix, 128, 0x1234);
            put16(&mut img.prefix, 130, (wa - 66) as u16);
            let body = rng.bytes(24);
            let mut bytes = ty.to_le_bytes().to_vec(); bytes.extend_from_slice(&(rng.range(1, 12) as u16).to_le_bytes()); bytes.extend_from_slice(&body);
            for (i, b) in bytes.iter().enumerate() { img.patches.push((wa * 2 + i as u32, *b)); }
        }
        10 => { // strings table lies about its count / lengths
            if let Some(p) = heads.iter().find(|p| img.prefix[**p] == 10 && img.prefix[**p + 1] == 0) {
                let p = *p + 4;
                if p < plen { img.prefix[p] = *rng.pick(&[255u8, 0, 1, 200]); nstr = img.prefix[p] as usize; }
                if p + 1 < plen && rng.chance(1, 2) { img.prefix[p + 1] = 255; }
            }
        }
        11 => { // PDO header claiming 255 entries of 255 bits
            if let Some(p) = heads.iter().find(|p| (img.prefix[**p] == 50 || img.prefix[**p] == 51) && img.prefix[**p + 1] == 0) {
                let p = *p + 4;
                if p + 8 <= plen { img.prefix[p + 2] = 255; for i in (p + 8..plen).step_by(8) { if i + 5 < plen { img.prefix[i + 5] = 255; } } }
            }
        }
        12 => { let l = rng.range(0, 600) as usize; img.prefix = rng.bytes(l); img.fill = rng.byte(); }
        _ => { // too many items for the fixed-capacity lists
            let ty = *rng.pick(&[41u16, 42, 50, 51, 40]);
            let n = rng.range(9, 70) as usize * 8;
            let mut b = vec![0u8; n];
            for x in b.iter_mut() { *x = *rng.pick(&[0u8, 1, 2, 0, 0]); }
            img.prefix.truncate(128);
            img.prefix.extend_from_slice(&ty.to_le_bytes()); img.prefix.extend_from_slice(&((n / 2) as u16).to_le_bytes()); img.prefix.extend_from_slice(&b);
            img.prefix.extend_from_slice(&[0xff, 0xff]);
        }
    }
    if img.prefix.len() < 128 && what >= 3 { img.prefix.resize(128, 0); }
    let runs = all_queries(rng, &img, cs, nstr.min(255), true);
    format!("{{\"kind\":\"adv\",\"release\":{},\"cs\":{},\"what\":{},{},\"runs\":[{}]}}", release, cs, what, img.json(), runs.join(","))
}

// ---------------- station alias ----------------
fn alias_case(rng: &mut Rng, k: usize, release: bool) -> String {
    let cs = if rng.chance(1, 2) { 4 } else { 8 };
    let l = rng.range(16, 40) as usize;
    let img = Image { prefix: rng.bytes(l), fill: rng.byte(), patches: vec![] };
    let alias = if k < 65536 { k as u16 } else { rng.edgy(16) as u16 };
    // every fourth case asks for the alias that is already stored (over a stale checksum)
    let alias = if rng.chance(1, 4) { u16::from_le_bytes([img.prefix[8], img.prefix[9]]) } else { alias };
    let m = img.mem(cs);
    let mut out: Vec<i64> = Vec::new();
    let r = std::panic::catch_unwind(std::panic::AssertUnwindSafe(|| block_on(verif::sii_query(m.clone(), 13, alias, &mut |v| out.push(v)))));
    let writes: Vec<String> = m.overlay.borrow().iter().map(|(a, v)| format!("[{},{}]", a, v)).collect();
    let first16: Vec<u8> = (0..16).map(|a| m.byte(a)).collect();
    let mut out2: Vec<i64> = Vec::new();
    let m2 = Mem { accesses: Rc::new(Cell::new(0)), ..m.clone() };
    let _ = std::panic::catch_unwind(std::panic::AssertUnwindSafe(|| block_on(verif::sii_query(m2, 12, 0, &mut |v| out2.push(v)))));
    format!("{{\"kind\":\"alias\",\"release\":{},\"cs\":{},{},\"alias\":{},{},\"writes\":[{}],\"after16\":{:?},\"alias_after\":{:?}}}",
        release, cs, img.json(), alias, outcome(r, &m), writes.join(","), first16, out2)
}

fn main() {
    let args: Vec<String> = std::env::args().collect();
    let mode = args[1].as_str();
    let seed: u64 = args[2].parse().unwrap();
    let n: usize = args[3].parse().unwrap();
    let release = !cfg!(debug_assertions);
    std::panic::set_hook(Box::new(|_| {}));
    let mut rng = Rng::new(seed);
    for k in 0..n {
        let line = match mode {
            "range" => range_case(&mut rng, release),
            "raw" => raw_case(&mut rng, release),
            "wf" => wf_case(&mut rng, release),
            "adv" => adv_case(&mut rng, release),
            "alias" => alias_case(&mut rng, k + seed as usize * 7919, release),
            _ => panic!("mode"),
        };
        println!("{}", line);
    }
}
