//! C04 harness: random push programs through the cfg(ethercrab_verif) frame wrappers; prints one
//! JSON line per case with every return value and the bytes the send closure saw.
use ethercrab::{Command, MainDevice, MainDeviceConfig, PduStorage, Reads, Timeouts, Writes};
use vharness::rng::Rng;

#[derive(Clone, Debug)]
pub enum Push {
    Pdu { kind: u8, a: u32, r: u16, data: Vec<u8>, ovr: Option<u16> },
    Rest { kind: u8, a: u32, r: u16, bytes: Vec<u8> },
}

pub struct Case {
    pub cap: usize,
    pub idx0: u8,
    pub prog: Vec<Push>,
}

// kinds: 0 Nop 1 Aprd 2 Fprd 3 Brd 4 Lrd 5 Bwr 6 Apwr 7 Fpwr 8 Frmw 9 Lwr 10 Lrw
fn command(kind: u8, a: u32, r: u16) -> Command {
    match kind {
        0 => Command::Nop,
        1 => Command::aprd(a as u16, r).into(),
        2 => Command::fprd(a as u16, r).into(),
        3 => Command::brd(r).into(),
        4 => Command::Read(Reads::Lrd { address: a }),
        5 => Command::bwr(r).into(),
        6 => Command::apwr(a as u16, r).into(),
        7 => Command::fpwr(a as u16, r).into(),
        8 => Command::frmw(a as u16, r).into(),
        9 => Command::lwr(a).into(),
        _ => Command::Write(Writes::Lrw { address: a }),
    }
}

fn bytes_json(b: &[u8]) -> String {
    format!("[{}]", b.iter().map(|x| x.to_string()).collect::<Vec<_>>().join(","))
}

fn f<const D: usize>(case: &Case, _rng: &mut Rng) -> String {
    let storage: &'static PduStorage<1, D> = Box::leak(Box::new(PduStorage::<1, D>::new()));
    let (mut tx, _rx, pl) = storage.try_split().unwrap();
    let md: &'static MainDevice<'static> =
        Box::leak(Box::new(MainDevice::new(pl, Timeouts::default(), MainDeviceConfig::default())));
    // consume idx0 indices and dirty the slot so stale bytes would show
    for _ in 0..case.idx0 {
        let mut fr = md.verif_alloc_frame().expect("alloc");
        let fill = vec![0xAAu8; D - 28];
        let _ = fr.push_pdu(Command::Nop, &fill, None);
    }
    let mut fr = md.verif_alloc_frame().expect("alloc");
    let mut results = Vec::new();
    for p in &case.prog {
        match p {
            Push::Pdu { kind, a, r, data, ovr } => {
                match fr.push_pdu(command(*kind, *a, *r), data, *ovr) {
                    Ok(h) => results.push(format!("[1,{},{},{}]", h.pdu_idx, h.index_in_frame, h.alloc_size)),
                    Err(_) => results.push("[2]".into()),
                }
            }
            Push::Rest { kind, a, r, bytes } => {
                match fr.push_pdu_slice_rest(command(*kind, *a, *r), bytes) {
                    Ok(None) => results.push("[3]".into()),
                    Ok(Some((n, h))) => results.push(format!("[4,{},{},{},{}]", n, h.pdu_idx, h.index_in_frame, h.alloc_size)),
                    Err(_) => results.push("[2]".into()),
                }
            }
        }
    }
    let empty = fr.is_empty();
    let fut = fr.mark_sendable(md, core::time::Duration::from_millis(10), 0);
    let mut sent = Vec::new();
    let mut nframes = 0;
    while let Some(s) = tx.next_sendable_frame() {
        nframes += 1;
        let _ = s.send_blocking(|b| {
            sent = b.to_vec();
            Ok(b.len())
        });
    }
    drop(fut);
    format!("\"results\":[{}],\"bytes\":{},\"empty\":{},\"nframes\":{}", results.join(","), bytes_json(&sent), empty, nframes)
}

include!("c04_sizes.rs");

fn gen_case(rng: &mut Rng, cap: usize) -> Case {
    let room = cap - 16;
    let n = rng.range(1, 7) as usize;
    let mut prog = Vec::new();
    for _ in 0..n {
        let kind = rng.below(11) as u8;
        let a = rng.edgy(32) as u32;
        let r = rng.edgy(16) as u16;
        if rng.chance(1, 4) {
            let len = match rng.below(4) { 0 => 0, 1 => rng.below(2 * cap as u64 + 1) as usize, 2 => rng.below(room as u64 + 1) as usize, _ => rng.below(16) as usize };
            prog.push(Push::Rest { kind, a, r, bytes: rng.bytes(len) });
        } else {
            let len = match rng.below(6) { 0 => 0, 1 => rng.below(cap as u64 + 9) as usize, 2 => room.saturating_sub(12 + rng.below(3) as usize), _ => rng.below(24.min(room as u64) + 1) as usize };
            let ovr = match rng.below(5) { 0 => Some(rng.below(len as u64 + 1) as u16), 1 => Some(len as u16), 2 => Some((len + rng.below(20) as usize) as u16), 3 => if rng.chance(1, 8) { Some(rng.edgy(16) as u16) } else { None }, _ => None };
            prog.push(Push::Pdu { kind, a, r, data: rng.bytes(len), ovr });
        }
    }
    Case { cap, idx0: if rng.chance(1, 3) { rng.range(250, 255) as u8 } else { rng.below(6) as u8 }, prog }
}

fn main() {
    let args: Vec<String> = std::env::args().collect();
    let seed: u64 = args[1].parse().unwrap();
    let n: usize = args[2].parse().unwrap();
    let all_sizes = args.get(3).map(|s| s == "all").unwrap_or(false);
    std::panic::set_hook(Box::new(|_| {}));
    let mut rng = Rng::new(seed);
    let boundary = [28usize, 29, 30, 39, 40, 41, 42, 43, 44, 60, 64, 100, 128, 255, 256, 257, 512, 1024, 1100, 1499, 1500, 1513, 1514];
    for i in 0..n {
        let cap = if all_sizes { 28 + (i % 1487) } else if i % 3 == 0 { boundary[(i / 3) % boundary.len()] } else { rng.range(28, 1514) as usize };
        let case = gen_case(&mut rng, cap);
        let prog: Vec<String> = case.prog.iter().map(|p| match p {
            Push::Pdu { kind, a, r, data, ovr } => format!("{{\"p\":\"pdu\",\"kind\":{},\"a\":{},\"r\":{},\"data\":{},\"ovr\":{}}}", kind, a, r, bytes_json(data), ovr.map(|o| o.to_string()).unwrap_or("null".into())),
            Push::Rest { kind, a, r, bytes } => format!("{{\"p\":\"rest\",\"kind\":{},\"a\":{},\"r\":{},\"data\":{}}}", kind, a, r, bytes_json(bytes)),
        }).collect();
        // a panic inside the frame builder is an answer to this case, not the end of the run
        let body = match std::panic::catch_unwind(std::panic::AssertUnwindSafe(|| dispatch(cap, &case, &mut rng))) {
            Ok(b) => b,
            Err(_) => "\"panic\":true,\"results\":[]".to_string(),
        };
        println!("{{\"cap\":{},\"idx0\":{},\"prog\":[{}],{}}}", cap, case.idx0, prog.join(","), body);
    }
}
