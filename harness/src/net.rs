//! Single-threaded executor that runs a future of the real MainDevice against a scripted wire.
use ethercrab::{PduLoop, PduRx, PduStorage, PduTx};
use std::future::Future;
use std::pin::pin;
use std::sync::atomic::{AtomicBool, Ordering};
use std::sync::Arc;
use std::task::{Context, Poll, Wake, Waker};

/// The network as seen from the MainDevice's NIC: one frame out, at most one frame back.
pub trait Wire {
    /// `None` = the frame (or its response) was lost.
    fn exchange(&mut self, frame: &[u8]) -> Option<Vec<u8>>;
}

impl<F: FnMut(&[u8]) -> Option<Vec<u8>>> Wire for F {
    fn exchange(&mut self, frame: &[u8]) -> Option<Vec<u8>> {
        self(frame)
    }
}

pub struct Flag(AtomicBool);
impl Wake for Flag {
    fn wake(self: Arc<Self>) {
        self.0.store(true, Ordering::SeqCst);
    }
    fn wake_by_ref(self: &Arc<Self>) {
        self.0.store(true, Ordering::SeqCst);
    }
}

pub fn storage<const N: usize, const D: usize>() -> (PduTx<'static>, PduRx<'static>, PduLoop<'static>) {
    let s: &'static PduStorage<N, D> = Box::leak(Box::new(PduStorage::<N, D>::new()));
    s.try_split().expect("split")
}

#[derive(Debug, Clone)]
pub struct Exchange {
    pub sent: Vec<u8>,
    pub reply: Option<Vec<u8>>,
    pub rx_result: Option<String>,
    pub at_us: u64,
}

#[derive(Debug)]
pub enum RunEnd<T> {
    Done(T),
    /// future pending, nothing to send, no timer armed
    Stuck,
    /// more than `max_frames` frames exchanged
    FrameLimit,
}

/// Drive `fut` to completion. Every frame the MainDevice makes sendable is handed to `wire`
/// at once and the reply (if any) is delivered before the future is polled again.
pub fn run<T>(
    fut: impl Future<Output = T>,
    tx: &mut PduTx<'static>,
    rx: &mut PduRx<'static>,
    wire: &mut dyn Wire,
    log: &mut Vec<Exchange>,
    max_frames: usize,
) -> RunEnd<T> {
    let flag = Arc::new(Flag(AtomicBool::new(true)));
    let waker: Waker = flag.clone().into();
    tx.replace_waker(&waker);
    let mut cx = Context::from_waker(&waker);
    let mut fut = pin!(fut);
    loop {
        if flag.0.swap(false, Ordering::SeqCst) {
            if let Poll::Ready(v) = fut.as_mut().poll(&mut cx) {
                return RunEnd::Done(v);
            }
        }
        let mut progress = false;
        while let Some(frame) = tx.next_sendable_frame() {
            let mut sent = Vec::new();
            let _ = frame.send_blocking(|b| {
                sent = b.to_vec();
                Ok(b.len())
            });
            let reply = wire.exchange(&sent);
            let rx_result = reply.as_ref().map(|r| format!("{:?}", rx.receive_frame(r)));
            log.push(Exchange { sent, reply, rx_result, at_us: crate::clock::now_us() });
            progress = true;
            if log.len() > max_frames {
                return RunEnd::FrameLimit;
            }
        }
        if progress || flag.0.load(Ordering::SeqCst) {
            // a delivered response wakes the future through its own waker (same flag)
            flag.0.store(true, Ordering::SeqCst);
            continue;
        }
        if !crate::clock::jump_to_next_timer() {
            return RunEnd::Stuck;
        }
        flag.0.store(true, Ordering::SeqCst);
    }
}
