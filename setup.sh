#!/bin/bash
# Build the framework from files on disk only (offline).  Run once after a fresh restore.
set -e
cd "$(dirname "$0")"
export CARGO_NET_OFFLINE=true RUSTUP_TOOLCHAIN=1.88.0
mkdir -p .cache run evidence
python3 tools/src2coq.py
cd coq
coq_makefile -f _CoqProject -o Makefile $(find . -name '*.v' -not -name '_*' | sed 's|^\./||' | sort) > /dev/null
find . -name '*.v' -not -name '_*' | sed 's|^\./||' | sort > .filelist.tmp
python3 - <<'PY'
open('.filelist','w').write("\n".join(l.strip() for l in open('.filelist.tmp') if l.strip()))
PY
rm -f .filelist.tmp
timeout 3000 make -j16 > ../.cache/coq_build.log 2>&1 || { tail -30 ../.cache/coq_build.log; exit 1; }
cd ../harness
[ -f Cargo.lock ] || cp /repo/Cargo.lock .
for b in $(ls src/bin | sed 's/\.rs$//'); do
  CARGO_TARGET_DIR=../.cache/target RUSTFLAGS="--cfg ethercrab_verif" cargo build --offline --bin $b > ../.cache/cargo_$b.log 2>&1 || { tail -30 ../.cache/cargo_$b.log; echo "harness bin $b failed to build (checks will report it)"; }
done
for b in sii; do
  CARGO_TARGET_DIR=../.cache/target RUSTFLAGS="--cfg ethercrab_verif" cargo build --offline --release --bin $b > ../.cache/cargo_${b}_release.log 2>&1 || true
done
echo setup done
